package worker

import (
	"bufio"
	"bytes"
	"context"
	"encoding/json"
	"fmt"
	"io"
	"math/rand"
	"net"
	"net/http"
	"os"
	"strconv"
	"strings"
	"sync"
	"sync/atomic"
	"time"

	"github.com/google/inverting-proxy/agent/utils"

	"verif/internal/rawhttp"
)

func init() { Modes["c06"] = c06Main }

// C06Fault is what the fault server does to one upload attempt.
type C06Fault struct {
	Kind     string `json:"kind"`      // ok | e5xx | rst | fin | garbage
	At       int    `json:"at"`        // payload bytes to read before acting; -1 = whole body; -2 = on accept; -3 = inside request headers
	KeepOpen bool   `json:"keep_open"` // after an early reply leave the socket open (unread) for a while
}

type C06Case struct {
	ID       string     `json:"id"`
	BodyLen  int        `json:"body_len"`
	Chunks   int        `json:"chunks"`      // number of handler Write calls
	DelayMs  int        `json:"delay_ms"`    // pause between handler writes
	Attempts []C06Fault `json:"attempts"`    // script for attempt 1..n; further attempts get "ok"
	HoldMs   int        `json:"hold_ms"`     // pause of the handler after the first write (lets an early fault land while streaming)
	HeaderMs int        `json:"header_ms"`   // pause of the handler before WriteHeader (a slow backend: all attempts may fail before the response exists)
	Scribble bool       `json:"scribble"`    // the transport's reads of the upload body go through a caller that overwrites its read buffer as soon as it has used the data (io.Reader allows that; net/http pools such buffers)
	LockStep bool       `json:"lock_step"`   // after its first write the handler continues only when a later attempt has received that first part (or 8 s have passed): a producer that waits for its consumer
	VMID     bool       `json:"vm_identity"` // the proxy client is wrapped the way the agent wraps it on GCE (utils.RoundTripperWithVMIdentity, fake metadata server)
}

type C06Spec struct {
	Parallel int       `json:"parallel"`
	BoundMs  int       `json:"bound_ms"`
	Cases    []C06Case `json:"cases"`
}

type C06Attempt struct {
	N        int    `json:"n"`
	Kind     string `json:"kind"`
	Received int    `json:"received"` // payload bytes the server read
	Acked    bool   `json:"acked"`
	Problem  string `json:"problem,omitempty"` // oracle verdict for an acknowledged attempt
}

type C06Result struct {
	ID         string       `json:"id"`
	Attempts   []C06Attempt `json:"attempts"`
	WriteErr   string       `json:"write_err,omitempty"`
	CloseErr   string       `json:"close_err,omitempty"`
	Hang       bool         `json:"hang"`
	Panic      string       `json:"panic,omitempty"`
	DurationMs int64        `json:"duration_ms"`
	Violations []string     `json:"violations,omitempty"`
	Serialised int          `json:"serialised_len"`
}

func c06Main(specBytes []byte) {
	var spec C06Spec
	if err := json.Unmarshal(specBytes, &spec); err != nil {
		panic(err)
	}
	if spec.Parallel <= 0 {
		spec.Parallel = 8
	}
	if spec.BoundMs <= 0 {
		spec.BoundMs = 10000
	}
	c06StartMetadata()
	sem := make(chan struct{}, spec.Parallel)
	var wg sync.WaitGroup
	for _, c := range spec.Cases {
		c := c
		sem <- struct{}{}
		wg.Add(1)
		go func() {
			defer wg.Done()
			defer func() { <-sem }()
			Start(c.ID)
			Emit(c06Run(c, time.Duration(spec.BoundMs)*time.Millisecond))
		}()
	}
	wg.Wait()
}

type c06Server struct {
	l        net.Listener
	acted    int64 // failing attempts whose fault has been carried out
	mu       sync.Mutex
	attempts []C06Attempt
	payloads [][]byte
	script   []C06Fault
	wg       sync.WaitGroup
	stop     chan struct{} // closed when the case is over
	prog     [8]int64      // payload bytes received so far, per attempt (atomic)
}

func (s *c06Server) serve() {
	for {
		conn, err := s.l.Accept()
		if err != nil {
			return
		}
		s.mu.Lock()
		n := len(s.attempts)
		f := C06Fault{Kind: "ok", At: -1}
		if n < len(s.script) {
			f = s.script[n]
		}
		s.attempts = append(s.attempts, C06Attempt{N: n + 1, Kind: fmt.Sprintf("%s@%d", f.Kind, f.At)})
		s.payloads = append(s.payloads, nil)
		s.mu.Unlock()
		s.wg.Add(1)
		go func() {
			defer s.wg.Done()
			s.handle(conn, n, f)
		}()
	}
}

func (s *c06Server) act(conn net.Conn, f C06Fault) {
	defer atomic.AddInt64(&s.acted, 1)
	switch f.Kind {
	case "e5xx":
		conn.Write([]byte("HTTP/1.1 503 Service Unavailable\r\nContent-Length: 0\r\nConnection: close\r\n\r\n"))
		if f.KeepOpen {
			time.Sleep(300 * time.Millisecond)
		}
		conn.Close()
	case "e401", "e403", "e404", "e429":
		// a rejection that is not a 5xx (expired identity token, unknown request, throttling): not a listed retry trigger, but
		// whatever the client does about it must not lead to an acknowledged partial upload
		conn.Write([]byte("HTTP/1.1 " + f.Kind[1:] + " Rejected\r\nContent-Length: 0\r\nConnection: close\r\n\r\n"))
		if f.KeepOpen {
			time.Sleep(300 * time.Millisecond)
		}
		conn.Close()
	case "e307", "e308":
		// a front end that redirects the upload (same origin, another path); a redirect is not an acknowledgement, and
		// whatever the client does about it is subject to the same rules as any other attempt
		conn.Write([]byte("HTTP/1.1 " + f.Kind[1:] + " Redirect\r\nLocation: /moved/agent/response\r\nContent-Length: 0\r\nConnection: close\r\n\r\n"))
		if f.KeepOpen {
			time.Sleep(300 * time.Millisecond)
		}
		conn.Close()
	case "e5xx-body-hold":
		// an early 5xx that carries the usual short explanation as a body, from a peer that then neither reads on nor
		// closes the connection (until the case is over): whatever the agent still has to send backs up in the socket
		conn.Write([]byte("HTTP/1.1 503 Service Unavailable\r\nContent-Type: text/plain\r\nContent-Length: 21\r\n\r\nupstream unavailable\n"))
		select {
		case <-s.stop:
		case <-time.After(45 * time.Second):
		}
		conn.Close()
	case "rst":
		if tc, ok := conn.(*net.TCPConn); ok {
			tc.SetLinger(0)
		}
		conn.Close()
	case "fin":
		conn.Close()
	case "garbage":
		conn.Write([]byte("BLAH BLAH BLAH\r\n\r\n"))
		conn.Close()
	}
}

func (s *c06Server) handle(conn net.Conn, n int, f C06Fault) {
	defer conn.Close()
	conn.SetDeadline(time.Now().Add(60 * time.Second))
	if f.At == -2 && f.Kind != "ok" {
		s.act(conn, f)
		return
	}
	br := bufio.NewReaderSize(conn, 64<<10)
	if f.At == -3 && f.Kind != "ok" {
		br.ReadString('\n') // request line only
		s.act(conn, f)
		return
	}
	// request head
	for {
		ln, err := br.ReadString('\n')
		if err != nil {
			return
		}
		if ln == "\r\n" {
			break
		}
	}
	limit := f.At
	if f.Kind == "ok" {
		limit = -1
	}
	var payload bytes.Buffer
	record := func() {
		s.mu.Lock()
		s.attempts[n].Received = payload.Len()
		s.mu.Unlock()
	}
	if limit == 0 {
		record()
		s.act(conn, f)
		return
	}
	// incremental de-chunking of the upload body
	complete := false
	for !complete {
		ln, err := br.ReadString('\n')
		if err != nil {
			record()
			return
		}
		sz, err := strconv.ParseInt(strings.TrimSpace(strings.SplitN(ln, ";", 2)[0]), 16, 64)
		if err != nil {
			record()
			return
		}
		if sz == 0 {
			// trailer section of the upload request (none expected) up to the empty line
			for {
				t, err := br.ReadString('\n')
				if err != nil || t == "\r\n" {
					break
				}
			}
			complete = true
			break
		}
		for sz > 0 {
			want := sz
			if limit > 0 && int64(limit-payload.Len()) < want {
				want = int64(limit - payload.Len())
			}
			buf := make([]byte, want)
			k, err := io.ReadFull(br, buf)
			payload.Write(buf[:k])
			if n < len(s.prog) {
				atomic.StoreInt64(&s.prog[n], int64(payload.Len()))
			}
			sz -= int64(k)
			if err != nil {
				record()
				return
			}
			if limit > 0 && payload.Len() >= limit {
				record()
				s.act(conn, f)
				return
			}
		}
		br.ReadString('\n') // CRLF after chunk data
	}
	record()
	if f.Kind != "ok" {
		// fault after the whole body
		s.act(conn, f)
		return
	}
	s.mu.Lock()
	s.attempts[n].Acked = true
	s.payloads[n] = append([]byte(nil), payload.Bytes()...)
	s.mu.Unlock()
	conn.Write([]byte("HTTP/1.1 200 OK\r\nContent-Length: 0\r\nConnection: close\r\n\r\n"))
}

func c06Body(id string, n int) []byte {
	h := int64(0)
	for _, c := range id {
		h = h*131 + int64(c)
	}
	b := make([]byte, n)
	rand.New(rand.NewSource(h)).Read(b)
	return b
}

func c06Run(c C06Case, bound time.Duration) C06Result {
	res := C06Result{ID: c.ID}
	l, err := net.Listen("tcp", "127.0.0.1:0")
	if err != nil {
		res.Panic = "listen: " + err.Error()
		return res
	}
	srv := &c06Server{l: l, script: c.Attempts, stop: make(chan struct{})}
	served := make(chan struct{})
	go func() { srv.serve(); close(served) }()
	defer l.Close()
	var stopOnce sync.Once
	stopHeld := func() { stopOnce.Do(func() { close(srv.stop) }) }
	defer stopHeld()

	target := "http://" + l.Addr().String() + "/"
	refused := len(c.Attempts) > 0 && c.Attempts[0].Kind == "refused"
	if refused {
		// nothing listens: every attempt fails at connect time, before the body is touched
		dead, err := net.Listen("tcp", "127.0.0.1:0")
		if err == nil {
			target = "http://" + dead.Addr().String() + "/"
			dead.Close()
		}
	}
	client := &http.Client{Timeout: 60 * time.Second, Transport: &http.Transport{}}
	defer client.CloseIdleConnections()
	if c.Scribble {
		client.Transport = c06ScribbleRT{client.Transport}
	}
	if c.VMID {
		vctx, vcancel := context.WithCancel(context.Background())
		defer vcancel()
		client.Transport = utils.RoundTripperWithVMIdentity(vctx, client.Transport, target, false)
	}
	req, _ := http.ReadRequest(bufio.NewReader(strings.NewReader("GET /x HTTP/1.1\r\nHost: example\r\n\r\n")))
	body := c06Body(c.ID, c.BodyLen)
	start := time.Now()
	done := make(chan struct{})
	var hm sync.Mutex
	var hWriteErr, hCloseErr, hPanic string
	lockStepStalled := false
	go func() {
		defer close(done)
		p := Recovered(func() {
			rw, err := utils.NewResponseForwarder(client, target, "backend", "req-"+c.ID, req, nil)
			if err != nil {
				hm.Lock()
				hWriteErr = "new: " + err.Error()
				hm.Unlock()
				return
			}
			rw.Header().Set("X-A", "value-"+c.ID)
			rw.Header().Add("Set-Cookie", "a="+c.ID)
			rw.Header().Add("Set-Cookie", "b="+c.ID)
			rw.Header().Set("Trailer", "X-T")
			if c.HeaderMs > 0 && refused {
				time.Sleep(time.Duration(c.HeaderMs) * time.Millisecond)
			} else if c.HeaderMs > 0 {
				// a slow backend: produce the response header only after the scripted leading failures have
				// all happened (a logical condition, not a fixed delay), bounded by 5 s
				// wait until the fault server has seen no new failing attempt for HeaderMs (quiescence), at most 3 s
				last, lastChange := int64(0), time.Now()
				for dl := time.Now().Add(5 * time.Second); time.Now().Before(dl); {
					n := atomic.LoadInt64(&srv.acted)
					if n != last {
						last, lastChange = n, time.Now()
					}
					if n >= 3 || n >= 1 && time.Since(lastChange) >= 1500*time.Millisecond {
						break
					}
					time.Sleep(5 * time.Millisecond)
				}
				if atomic.LoadInt64(&srv.acted) >= 3 {
					time.Sleep(time.Duration(c.HeaderMs) * time.Millisecond) // let the client notice the last failure
				}
			}
			rw.WriteHeader(207)
			chunks := c.Chunks
			if chunks < 1 {
				chunks = 1
			}
			per := (len(body) + chunks - 1) / chunks
			for off, i := 0, 0; off < len(body); i++ {
				end := off + per
				if end > len(body) {
					end = len(body)
				}
				if _, err := rw.Write(body[off:end]); err != nil {
					hm.Lock()
					hWriteErr = err.Error()
					hm.Unlock()
					break
				}
				off = end
				if i == 0 && c.HoldMs > 0 {
					time.Sleep(time.Duration(c.HoldMs) * time.Millisecond)
				}
				if i == 0 && c.LockStep {
					// continue only when an attempt after the first has received this first part
					ok := false
					for dl := time.Now().Add(8 * time.Second); time.Now().Before(dl) && !ok; time.Sleep(2 * time.Millisecond) {
						for k := 1; k < len(srv.prog); k++ {
							if atomic.LoadInt64(&srv.prog[k]) >= int64(end) {
								ok = true
							}
						}
					}
					if !ok {
						hm.Lock()
						lockStepStalled = true
						hm.Unlock()
					}
				}
				if c.DelayMs > 0 {
					time.Sleep(time.Duration(c.DelayMs) * time.Millisecond)
				}
			}
			rw.Header().Set("X-T", "trailer-"+c.ID)
			if err := rw.Close(); err != nil {
				hm.Lock()
				hCloseErr = err.Error()
				hm.Unlock()
			}
		})
		hm.Lock()
		hPanic = p
		hm.Unlock()
	}()
	select {
	case <-done:
	case <-time.After(bound):
		res.Hang = true
	}
	res.DurationMs = time.Since(start).Milliseconds()
	hm.Lock()
	res.WriteErr, res.CloseErr, res.Panic = hWriteErr, hCloseErr, hPanic
	hm.Unlock()
	if !res.Hang {
		// let the server goroutines finish recording
		stopHeld()
		// no further connection is accepted (and so none added to the wait group) once the accept loop has ended
		l.Close()
		<-served
		waited := make(chan struct{})
		go func() { srv.wg.Wait(); close(waited) }()
		select {
		case <-waited:
		case <-time.After(3 * time.Second):
		}
	}
	srv.mu.Lock()
	res.Attempts = append([]C06Attempt(nil), srv.attempts...)
	payloads := append([][]byte(nil), srv.payloads...)
	srv.mu.Unlock()

	// oracle
	for i := range res.Attempts {
		a := &res.Attempts[i]
		if a.Acked {
			res.Serialised = len(payloads[i])
			if p := c06CheckPayload(c.ID, payloads[i], body); p != "" {
				a.Problem = p
				prev := "first-attempt"
				if i > 0 {
					prev = "after-" + res.Attempts[i-1].Kind
				}
				res.Violations = append(res.Violations, fmt.Sprintf("ack-corrupt|%s|attempt %d acknowledged with a payload that is not the complete response: %s", prev, a.N, p))
			}
		}
		if i > 0 && res.Attempts[i-1].Received > 4096 {
			res.Violations = append(res.Violations, fmt.Sprintf("retry-after-unreplayable|%s|attempt %d was made although the proxy had already received %d (>4096) payload bytes in the failed attempt before it", res.Attempts[i-1].Kind, a.N, res.Attempts[i-1].Received))
		}
	}
	hm.Lock()
	stalled := lockStepStalled
	hm.Unlock()
	if stalled {
		res.Violations = append(res.Violations, fmt.Sprintf("retry-waited-for-more-output|%s|the first attempt was turned down after the proxy had received the first part of the response; for 8 s no later attempt delivered that part again, although it could be replayed - the retry only moved when the handler produced more output", res.Attempts[0].Kind))
	}
	if len(res.Attempts) > 3 {
		res.Violations = append(res.Violations, fmt.Sprintf("too-many-attempts||%d upload attempts", len(res.Attempts)))
	}
	if res.Panic != "" {
		res.Violations = append(res.Violations, "panic||"+res.Panic)
	}
	return res
}

// c06CheckPayload returns "" iff payload is exactly the serialised response
// the handler wrote.
func c06CheckPayload(id string, payload, body []byte) string {
	br := bufio.NewReader(bytes.NewReader(payload))
	m, err := rawhttp.ReadResponse(br, "GET")
	if err != nil {
		return "unparsable: " + err.Error()
	}
	if rest, _ := io.ReadAll(br); len(rest) > 0 {
		return fmt.Sprintf("%d trailing bytes after the response", len(rest))
	}
	if m.Status != 207 {
		return fmt.Sprintf("status %d want 207", m.Status)
	}
	if v := m.Get("X-A"); len(v) != 1 || v[0] != "value-"+id {
		return fmt.Sprintf("X-A %q", v)
	}
	if v := m.Get("Set-Cookie"); len(v) != 2 || v[0] != "a="+id || v[1] != "b="+id {
		return fmt.Sprintf("Set-Cookie %q", v)
	}
	if !bytes.Equal(m.Body, body) {
		off := 0
		for off < len(m.Body) && off < len(body) && m.Body[off] == body[off] {
			off++
		}
		return fmt.Sprintf("body len %d want %d, first difference at %d", len(m.Body), len(body), off)
	}
	if v := m.GetTrailer("X-T"); len(v) != 1 || v[0] != "trailer-"+id {
		return fmt.Sprintf("trailer X-T %q", v)
	}
	return ""
}

var c06MetaOnce sync.Once

// c06StartMetadata starts a fake GCE metadata server (service-account e-mail
// and identity tokens) and points the metadata library at it, so that
// utils.RoundTripperWithVMIdentity wraps the client as it does on a GCE VM.
func c06StartMetadata() {
	c06MetaOnce.Do(func() {
		l, err := net.Listen("tcp", "127.0.0.1:0")
		if err != nil {
			return
		}
		var n int64
		mux := http.NewServeMux()
		mux.HandleFunc("/", func(w http.ResponseWriter, r *http.Request) {
			w.Header().Set("Metadata-Flavor", "Google")
			switch {
			case strings.HasSuffix(r.URL.Path, "/service-accounts/default/email"):
				fmt.Fprint(w, "verif-sa@example.iam.gserviceaccount.com")
			case strings.HasSuffix(r.URL.Path, "/service-accounts/default/identity"):
				fmt.Fprintf(w, "vm-identity-token-%d", atomic.AddInt64(&n, 1))
			default:
				fmt.Fprint(w, "ok")
			}
		})
		go http.Serve(l, mux)
		os.Setenv("GCE_METADATA_HOST", l.Addr().String())
	})
}

// c06ScribbleRT hands the request body to the real transport through a reader
// that reads into a buffer of its own and overwrites that buffer once the data
// has been copied out: whoever keeps a reference to a caller's read buffer
// instead of a copy sees '#' bytes.
type c06ScribbleRT struct{ rt http.RoundTripper }

func (t c06ScribbleRT) RoundTrip(r *http.Request) (*http.Response, error) {
	if r.Body != nil {
		r2 := r.Clone(r.Context())
		r2.Body = &c06ScribbleBody{inner: r.Body}
		r = r2
	}
	return t.rt.RoundTrip(r)
}

type c06ScribbleBody struct {
	inner io.ReadCloser
	buf   []byte
}

func (b *c06ScribbleBody) Read(p []byte) (int, error) {
	if len(b.buf) < len(p) {
		b.buf = make([]byte, len(p))
	}
	n, err := b.inner.Read(b.buf[:len(p)])
	copy(p, b.buf[:n])
	// once Read has returned, the whole buffer is the caller's again, whatever n and err were
	for i := 0; i < len(p); i++ {
		b.buf[i] = '#'
	}
	return n, err
}

func (b *c06ScribbleBody) Close() error { return b.inner.Close() }
