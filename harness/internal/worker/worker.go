// Package worker holds the in-process side of the E2 checks. Every file
// registers its modes in Modes from an init function.
package worker

import (
	"encoding/json"
	"fmt"
	"os"
	"sync"
)

// Modes maps a mode name to its entry point (spec = JSON from stdin).
var Modes = map[string]func(spec []byte){}

var outMu sync.Mutex

// Emit writes one JSON result line to stdout.
func Emit(v interface{}) {
	b, err := json.Marshal(v)
	if err != nil {
		b = []byte(fmt.Sprintf(`{"emit_error":%q}`, err.Error()))
	}
	outMu.Lock()
	os.Stdout.Write(append(b, '\n'))
	outMu.Unlock()
}

// Start announces a case on stderr before it runs.
func Start(id string) {
	outMu.Lock()
	fmt.Fprintf(os.Stderr, "START %s\n", id)
	outMu.Unlock()
}

// Recovered runs f and turns a panic on this goroutine into a string (in
// the real agent these goroutines are bare, so a recovered panic means "this
// would have terminated the agent").
func Recovered(f func()) (panicked string) {
	defer func() {
		if p := recover(); p != nil {
			panicked = fmt.Sprint(p)
		}
	}()
	f()
	return ""
}
