package worker

// C14 — banner and shim-script injection touch HTML documents only.
//
// In-process differential monitor (engine E2). For the banner the same
// scripted handler is served once directly into a recorder and once through
// banner.Proxy; for the shim script websockets.ShimBody's function is applied
// to responses whose body is a scripted reader. The oracle is evaluated here
// (bodies never leave the process); the orchestrator aggregates the verdict
// lines.

import (
	"bufio"
	"bytes"
	"compress/gzip"
	"context"
	"encoding/json"
	"fmt"
	"html"
	"io"
	"math/rand"
	"net/http"
	"net/url"
	"sort"
	"strings"

	"github.com/google/inverting-proxy/agent/banner"
	"github.com/google/inverting-proxy/agent/websockets"
)

func init() { Modes["c14"] = c14Main }

// c14Spec is the JSON the orchestrator sends on stdin.
type c14Spec struct {
	Seed   int64 `json:"seed"`
	Shard  int   `json:"shard"`
	Shards int   `json:"shards"`
	Banner int   `json:"banner"` // number of banner cases (all shards together)
	Shim   int   `json:"shim"`   // number of shim cases (all shards together)
	Only   int   `json:"only"`   // -1: all cases of this shard; else exactly this global index
}

// c14Result is one verdict line.
type c14Result struct {
	I       int         `json:"i"`
	Kind    string      `json:"k"` // banner | shim | nil
	Class   string      `json:"c"`
	Outcome string      `json:"o"`
	Flags   []string    `json:"f,omitempty"`
	Sig     string      `json:"sig,omitempty"`
	Msg     string      `json:"msg,omitempty"`
	Case    interface{} `json:"case,omitempty"`
	Detail  interface{} `json:"detail,omitempty"`
}

const (
	c14No   = 0
	c14Yes  = 1
	c14Open = 2
)

func c14TriName(t int) string { return [...]string{"no", "yes", "open"}[t] }

func c14And(vs ...int) int {
	open := false
	for _, v := range vs {
		if v == c14No {
			return c14No
		}
		if v == c14Open {
			open = true
		}
	}
	if open {
		return c14Open
	}
	return c14Yes
}

func c14Or(vs ...int) int {
	open := false
	for _, v := range vs {
		if v == c14Yes {
			return c14Yes
		}
		if v == c14Open {
			open = true
		}
	}
	if open {
		return c14Open
	}
	return c14No
}

// c14Opt is one value of an enumerated dimension. Tri says what the property
// statement makes of it: yes / no / left open.
type c14Opt struct {
	Name  string
	Lines []string // header lines (nil: header absent)
	Tri   int
}

var c14Methods = []c14Opt{{"GET", nil, c14Yes}, {"POST", nil, c14No}, {"HEAD", nil, c14No}, {"PUT", nil, c14No}}

// "Accept includes text/html"
var c14Accepts = []c14Opt{
	{"absent", nil, c14No},
	{"any", []string{"*/*"}, c14No},
	{"html", []string{"text/html"}, c14Yes},
	{"list", []string{"text/html,application/xhtml+xml,application/xml;q=0.9,*/*;q=0.8"}, c14Yes},
	{"list-mid", []string{"application/json, text/html;q=0.9, */*;q=0.1"}, c14Yes},
	{"json", []string{"application/json"}, c14No},
	{"xhtml-only", []string{"application/xhtml+xml,application/xml;q=0.9"}, c14No},
	{"upper", []string{"TEXT/HTML"}, c14Open},
	{"second-line", []string{"application/json", "text/html"}, c14Open},
	{"first-line", []string{"text/html", "application/json"}, c14Yes},
	{"q0", []string{"application/json, text/html;q=0"}, c14Open},
}

var c14Statuses = []int{200, 201, 204, 206, 301, 304, 404, 500}

// "HTML reply"
var c14CTs = []c14Opt{
	{"html", []string{"text/html; charset=utf-8"}, c14Yes},
	{"html-bare", []string{"text/html"}, c14Yes},
	{"xhtml", []string{"application/xhtml+xml"}, c14Yes},
	{"plain", []string{"text/plain"}, c14No},
	{"json", []string{"application/json"}, c14No},
	{"absent", nil, c14No},
	{"two-nonhtml", []string{"text/plain", "application/json"}, c14No},
	{"two-mixed", []string{"text/plain", "text/html"}, c14Open},
	{"two-mixed-rev", []string{"text/html", "text/plain"}, c14Open},
	{"two-html", []string{"text/html", "application/xhtml+xml"}, c14Yes},
	{"upper", []string{"TEXT/HTML; charset=UTF-8"}, c14Open},
}

// "non-attachment": Tri yes = not an attachment
var c14CDs = []c14Opt{
	{"absent", nil, c14Yes},
	{"inline", []string{"inline"}, c14Yes},
	{"attachment", []string{"attachment; filename=x"}, c14No},
	{"attachment-bare", []string{"attachment"}, c14No},
	// attachments whose parameters a strict media-type parser rejects (browsers still download them)
	{"attachment-filename-with-space", []string{"attachment; filename=monthly report.html"}, c14No},
	{"attachment-filename-with-parens", []string{"attachment; filename=report(final).html"}, c14No},
	{"attachment-trailing-comma", []string{`attachment; filename="a.html"; size=12,`}, c14No},
	{"attachment-no-space", []string{"attachment;filename=x.html"}, c14No},
	{"attachment-ext-value", []string{"attachment; filename*=UTF-8''r%C3%A9sum%C3%A9.html"}, c14No},
	{"upper", []string{"ATTACHMENT; filename=x"}, c14Open},
	{"inline-named-attachment", []string{`inline; filename="attachment.html"`}, c14Open},
}

// "already framed": Tri yes = framed
var c14SFMs = []c14Opt{{"absent", nil, c14No}, {"navigate", []string{"navigate"}, c14No}, {"nested-navigate", []string{"nested-navigate"}, c14Yes}}
var c14SFDs = []c14Opt{{"absent", nil, c14No}, {"document", []string{"document"}, c14No}, {"iframe", []string{"iframe"}, c14Yes}}

// Referer classes; the value is built from host and path of the request.
var c14Referers = []c14Opt{
	{"absent", nil, c14No},
	{"same", nil, c14Yes},
	{"same-query", nil, c14Yes},
	{"same-https", nil, c14Yes},
	{"other-path", nil, c14No},
	{"sub-path", nil, c14No},
	{"other-host", nil, c14No},
	{"other-port", nil, c14No},
	{"malformed", nil, c14No},
	{"host-case", nil, c14Open},
}

var c14Hosts = []string{"c14.example", "c14.example:8080", "127.0.0.1:9000", "app.internal", "[::1]", "[2001:db8::7]", "[::1]:8080", "10.1.2.3"}
var c14Paths = []string{"/", "/index.html", "/a/b", "/a/b/", "/notebooks/Untitled%20One.ipynb", "/x.y/z_1-2~3", "/a%2Fb/c"}

// URL classes: what the query looks like.
var c14URLClasses = []string{"plain", "query", "quote", "entity"}

var c14Banners = []string{
	`<b>Proxied</b>`,
	`<div id="b">{{.TargetURL}} {{ "x" }} }}{{ <a href="/x?a=1&amp;b=2">l</a></div>`,
	"<p>50% &lt;off&gt; 'single' \"double\" {{/* c */}} `bt` {{end}}</p>",
	`<span>ünïcode ✓ {{.Banner}}{{template "fav-icon" .}}</span>`,
}
var c14FavIcons = []string{"", "/favicon.png", `https://icons.example/i.png?s=16&v=2`}
var c14Heights = []string{"40px", "10%"}

// c14BannerCase is one scripted request/handler pair.
type c14BannerCase struct {
	Idx      int         `json:"idx"`
	ID       string      `json:"id"`
	Gen      string      `json:"gen"` // near-D | product
	Method   string      `json:"method"`
	Host     string      `json:"host"`
	Target   string      `json:"target"`
	URLClass string      `json:"url_class"`
	Accept   c14Opt      `json:"accept"`
	SFM      c14Opt      `json:"sec_fetch_mode"`
	SFD      c14Opt      `json:"sec_fetch_dest"`
	RefClass string      `json:"referer_class"`
	Referer  string      `json:"referer"`
	RefTri   int         `json:"-"`
	Status   int         `json:"status"`
	CT       c14Opt      `json:"content_type"`
	CD       c14Opt      `json:"content_disposition"`
	CE       string      `json:"content_encoding"`
	Extra    [][2]string `json:"extra_headers"`
	BodyKind string      `json:"body_kind"`
	BodyLen  int         `json:"body_len"`
	Seg      string      `json:"segmentation"` // one | bytes | split | cuts | none
	Cuts     []int       `json:"cuts,omitempty"`
	Explicit bool        `json:"explicit_write_header"`
	Flush    string      `json:"flush"` // "" | before | after-first
	Interim  bool        `json:"interim_103"`
	Banner   int         `json:"banner_html"`
	FavIcon  int         `json:"fav_icon"`
	Height   int         `json:"height"`
	D        int         `json:"-"`
	Framed   int         `json:"-"`
	DStr     string      `json:"D"`
	FStr     string      `json:"framed"`
	WhyNotD  string      `json:"why_not_D,omitempty"`
	body     []byte
	mi       int
}

func c14Mix(seed, idx int64) int64 {
	z := uint64(seed)*0x9E3779B97F4A7C15 + uint64(idx)*0xBF58476D1CE4E5B9 + 0x94D049BB133111EB
	z ^= z >> 30
	z *= 0xBF58476D1CE4E5B9
	z ^= z >> 27
	z *= 0x94D049BB133111EB
	z ^= z >> 31
	return int64(z)
}

type c14Flip struct{ dim, opt int }

var c14Flips []c14Flip     // every single-dimension departure from D
var c14YesOpts [5][]int    // per key dimension: options with Tri == yes
var c14KeySizes = [5]int{} // method, accept, status, ct, cd

func c14KeyTri(dim, opt int) int {
	switch dim {
	case 0:
		return c14Methods[opt].Tri
	case 1:
		return c14Accepts[opt].Tri
	case 2:
		if c14Statuses[opt] == 200 {
			return c14Yes
		}
		return c14No
	case 3:
		return c14CTs[opt].Tri
	default:
		return c14CDs[opt].Tri
	}
}

func init() {
	c14KeySizes = [5]int{len(c14Methods), len(c14Accepts), len(c14Statuses), len(c14CTs), len(c14CDs)}
	for d := 0; d < 5; d++ {
		for o := 0; o < c14KeySizes[d]; o++ {
			if c14KeyTri(d, o) == c14Yes {
				c14YesOpts[d] = append(c14YesOpts[d], o)
			} else {
				c14Flips = append(c14Flips, c14Flip{d, o})
			}
		}
	}
}

func c14Coprime(stride, n int) int {
	gcd := func(a, b int) int {
		for b != 0 {
			a, b = b, a%b
		}
		return a
	}
	for gcd(stride, n) != 1 {
		stride++
	}
	return stride
}

// c14GenBanner builds banner case idx: a pure function of (seed, idx).
// Two thirds of the cases sit on the boundary of D (a point of D with zero,
// one or two dimensions flipped, crossed with every framing combination),
// one third walks the full product of the key dimensions.
func c14GenBanner(seed int64, idx int) *c14BannerCase {
	rng := rand.New(rand.NewSource(c14Mix(seed, int64(idx))))
	c := &c14BannerCase{Idx: idx, ID: fmt.Sprintf("b%d", idx)}
	var key [5]int
	var fm, fd, fr int
	nFraming := len(c14SFMs) * len(c14SFDs) * len(c14Referers)
	if idx%3 != 2 {
		c.Gen = "near-D"
		j := (idx/3)*2 + idx%3
		slots := len(c14Flips) + 10
		total := slots * nFraming
		pos := (j * c14Coprime(7919, total)) % total
		slot, framing := pos%slots, pos/slots
		for d := 0; d < 5; d++ {
			key[d] = c14YesOpts[d][rng.Intn(len(c14YesOpts[d]))]
		}
		switch {
		case slot < len(c14Flips):
			key[c14Flips[slot].dim] = c14Flips[slot].opt
		case slot < len(c14Flips)+6:
			// D itself
		default:
			a, b := c14Flips[rng.Intn(len(c14Flips))], c14Flips[rng.Intn(len(c14Flips))]
			key[a.dim] = a.opt
			key[b.dim] = b.opt
		}
		fm = framing % len(c14SFMs)
		fd = (framing / len(c14SFMs)) % len(c14SFDs)
		fr = framing / (len(c14SFMs) * len(c14SFDs))
	} else {
		c.Gen = "product"
		k := idx / 3
		total := 1
		for _, n := range c14KeySizes {
			total *= n
		}
		pos := (k * c14Coprime(104729, total)) % total
		for d := 0; d < 5; d++ {
			key[d] = pos % c14KeySizes[d]
			pos /= c14KeySizes[d]
		}
		// framing: mostly unframed, so that D points of the product show the frame
		if rng.Intn(2) == 0 {
			fm, fd, fr = rng.Intn(len(c14SFMs)), rng.Intn(len(c14SFDs)), rng.Intn(len(c14Referers))
		} else {
			fm, fd = rng.Intn(2), rng.Intn(2)
			fr = []int{0, 4, 5, 6, 7, 8}[rng.Intn(6)]
		}
	}
	c.mi = key[0]
	c.Method = c14Methods[key[0]].Name
	c.Accept = c14Accepts[key[1]]
	c.Status = c14Statuses[key[2]]
	c.CT = c14CTs[key[3]]
	c.CD = c14CDs[key[4]]
	c.SFM, c.SFD = c14SFMs[fm], c14SFDs[fd]

	// request URL
	c.Host = c14Hosts[rng.Intn(len(c14Hosts))]
	path := c14Paths[rng.Intn(len(c14Paths))]
	c.URLClass = c14URLClasses[[]int{0, 0, 1, 1, 1, 1, 2, 3}[rng.Intn(8)]]
	query := ""
	switch c.URLClass {
	case "query":
		query = fmt.Sprintf("x=%d&y=two&tok=s%dc%d", rng.Intn(1000), seed, idx)
	case "quote":
		query = fmt.Sprintf(`q="x%d"&r=<b>`, rng.Intn(1000))
	case "entity":
		query = fmt.Sprintf("a=%d&amp;b=2&lt;c", rng.Intn(1000))
	}
	c.Target = path
	if query != "" {
		c.Target += "?" + query
	}
	// referer
	ref := c14Referers[fr]
	c.RefClass, c.RefTri = ref.Name, ref.Tri
	decodedPath := path // Referer carries the same spelling of the path as the request line
	switch ref.Name {
	case "same":
		c.Referer = "http://" + c.Host + decodedPath
	case "same-query":
		c.Referer = "http://" + c.Host + decodedPath + "?from=elsewhere"
	case "same-https":
		c.Referer = "https://" + c.Host + decodedPath
	case "other-path":
		c.Referer = "http://" + c.Host + "/some/other/page"
	case "sub-path":
		c.Referer = "http://" + c.Host + strings.TrimSuffix(decodedPath, "/") + "/sub"
	case "other-host":
		c.Referer = "http://elsewhere.example" + decodedPath
	case "other-port":
		c.Referer = "http://" + strings.Split(c.Host, ":")[0] + ":1" + decodedPath
	case "malformed":
		c.Referer = []string{"http://%zz/" + strings.TrimPrefix(decodedPath, "/"), ":nope", "http://[::1" + decodedPath}[rng.Intn(3)]
	case "host-case":
		c.Referer = "http://" + strings.ToUpper(c.Host) + decodedPath
		if strings.ToUpper(c.Host) == c.Host { // numeric host: no case to vary
			c.RefTri = c14Yes
		}
	}

	// response script
	if rng.Intn(4) == 0 {
		c.CE = "gzip"
	}
	if rng.Intn(2) == 0 {
		n := 2 + rng.Intn(2)
		for k := 0; k < n; k++ {
			c.Extra = append(c.Extra, [2]string{"Set-Cookie", fmt.Sprintf("c%d=v%d-%d; Path=/p%d", k, idx, k, k)})
		}
	}
	if rng.Intn(3) == 0 {
		c.Extra = append(c.Extra, [2]string{"X-Custom", "one"}, [2]string{"x-custom", "two, three"})
	}
	if rng.Intn(3) == 0 {
		// backend cache policies, including ones that merely mention no-cache/no-store (qualified directive, extension token)
		c.Extra = append(c.Extra, [2]string{"Cache-Control", []string{"public, max-age=3600", "public, max-age=3600", `no-cache="Set-Cookie", max-age=86400`,
			`public, max-age=31536000, no-cache="set-cookie"`, "private, x-no-store-hint=1, max-age=600", "no-store", "no-cache", "max-age=0, must-revalidate"}[rng.Intn(8)]})
	}
	if rng.Intn(3) == 0 {
		c.Extra = append(c.Extra, [2]string{"X-Frame-Options", "DENY"})
	}
	if rng.Intn(5) == 0 {
		// a document the backend compressed (the bytes are opaque to the banner; only the frame page itself is identity-coded)
		c.Extra = append(c.Extra, [2]string{"Content-Encoding", []string{"gzip", "br", "gzip", "deflate"}[rng.Intn(4)]})
	}
	if rng.Intn(4) == 0 {
		c.Extra = append(c.Extra, [2]string{"Expires", "Thu, 01 Jan 2099 00:00:00 GMT"}, [2]string{"ETag", fmt.Sprintf(`"e%d"`, idx)})
	}
	if c.Status == 301 {
		c.Extra = append(c.Extra, [2]string{"Location", "http://" + c.Host + "/moved?i=" + fmt.Sprint(idx)})
	}
	c.BodyKind = []string{"html", "html", "html", "text", "binary", "binary", "empty", "one-byte", "large"}[rng.Intn(9)]
	switch c.BodyKind {
	case "html":
		c.body = []byte(fmt.Sprintf("<!doctype html>\n<html><head><title>case %d</title></head><body>%s</body></html>\n", idx, c14Filler(rng, rng.Intn(3000), false)))
	case "text":
		c.body = c14Filler(rng, 1+rng.Intn(600), false)
	case "binary":
		c.body = c14Filler(rng, 1+rng.Intn(5000), true)
	case "one-byte":
		c.body = []byte{byte(rng.Intn(256))}
	case "large":
		c.body = c14Filler(rng, 60000+rng.Intn(20000), true)
	}
	c.BodyLen = len(c.body)
	if rng.Intn(2) == 0 {
		c.Extra = append(c.Extra, [2]string{"Content-Length", fmt.Sprint(len(c.body))})
	}
	c.Seg = []string{"one", "one", "bytes", "split", "cuts", "none"}[rng.Intn(6)]
	if c.Seg == "bytes" && len(c.body) > 4096 {
		c.Seg = "cuts"
	}
	switch c.Seg {
	case "split":
		c.Cuts = []int{len(c.body) / 2}
	case "cuts":
		for k := 0; k < 3 && len(c.body) > 0; k++ {
			c.Cuts = append(c.Cuts, rng.Intn(len(c.body)+1))
		}
		sort.Ints(c.Cuts)
	case "none":
		c.body, c.BodyLen = nil, 0
	}
	c.Explicit = c.Status != 200 || rng.Intn(2) == 0
	c.Flush = []string{"", "", "before", "after-first"}[rng.Intn(4)]
	c.Interim = rng.Intn(12) == 0
	c.Banner, c.FavIcon, c.Height = rng.Intn(len(c14Banners)), rng.Intn(len(c14FavIcons)), rng.Intn(len(c14Heights))

	// classification by the statement (not by the code under test)
	st := c14No
	if c.Status == 200 {
		st = c14Yes
	}
	c.D = c14And(c14Methods[key[0]].Tri, c.Accept.Tri, st, c.CD.Tri, c.CT.Tri)
	c.Framed = c14Or(c.SFM.Tri, c.SFD.Tri, c.RefTri)
	c.DStr, c.FStr = c14TriName(c.D), c14TriName(c.Framed)
	if c.D == c14No {
		switch {
		case c14Methods[key[0]].Tri == c14No:
			c.WhyNotD = "non-GET"
		case c.Accept.Tri == c14No:
			c.WhyNotD = "accept-without-html"
		case st == c14No:
			c.WhyNotD = "not-200"
		case c.CD.Tri == c14No:
			c.WhyNotD = "attachment"
		default:
			c.WhyNotD = "non-html-type"
		}
	}
	return c
}

func (c *c14BannerCase) class() string {
	s := fmt.Sprintf("banner|%s|acc:%s|framed:%s|%d|ct:%s|cd:%s", c.Method, c.Accept.Name, c.FStr, c.Status, c.CT.Name, c.CD.Name)
	if c.Interim {
		s += "|1xx"
	}
	return s
}

// c14Filler returns n bytes that never contain "<head>" or the shim markers.
func c14Filler(rng *rand.Rand, n int, binary bool) []byte {
	b := make([]byte, n)
	if binary {
		rng.Read(b)
	} else {
		const alpha = "abcdefghijklmnopqrstuvwxyz  \n<>/=\"&;-!HEAD"
		for i := range b {
			b[i] = alpha[rng.Intn(len(alpha))]
		}
	}
	for _, bad := range []string{"<head>", "_WEBSOCKET_SHIM"} {
		for {
			i := bytes.Index(b, []byte(bad))
			if i < 0 {
				break
			}
			b[i+2] = 'x'
		}
	}
	return b
}

// rawRequest is the request as it would arrive from the proxy.
func (c *c14BannerCase) rawRequest() []byte {
	var w bytes.Buffer
	fmt.Fprintf(&w, "%s %s HTTP/1.1\r\nHost: %s\r\nUser-Agent: c14\r\n", c.Method, c.Target, c.Host)
	for _, v := range c.Accept.Lines {
		fmt.Fprintf(&w, "Accept: %s\r\n", v)
	}
	for _, v := range c.SFM.Lines {
		fmt.Fprintf(&w, "Sec-Fetch-Mode: %s\r\n", v)
	}
	for _, v := range c.SFD.Lines {
		fmt.Fprintf(&w, "Sec-Fetch-Dest: %s\r\n", v)
	}
	if c.RefClass != "absent" {
		fmt.Fprintf(&w, "Referer: %s\r\n", c.Referer)
	}
	if c.Method == "POST" || c.Method == "PUT" {
		w.WriteString("Content-Length: 3\r\n\r\nabc")
	} else {
		w.WriteString("\r\n")
	}
	return w.Bytes()
}

// handler is the scripted backend: a pure function of the case.
func (c *c14BannerCase) handler() http.Handler {
	return http.HandlerFunc(func(w http.ResponseWriter, r *http.Request) {
		h := w.Header()
		for _, v := range c.CT.Lines {
			h.Add("Content-Type", v)
		}
		for _, v := range c.CD.Lines {
			h.Add("Content-Disposition", v)
		}
		if c.CE != "" {
			h.Add("Content-Encoding", c.CE)
		}
		for _, kv := range c.Extra {
			h.Add(kv[0], kv[1])
		}
		flush := func() {
			if f, ok := w.(http.Flusher); ok {
				f.Flush()
			}
		}
		if c.Interim {
			h.Add("Link", "</early.css>; rel=preload")
			w.WriteHeader(http.StatusEarlyHints)
			h.Del("Link")
		}
		if c.Explicit {
			w.WriteHeader(c.Status)
		}
		if c.Flush == "before" && c.Explicit {
			flush()
		}
		pieces := c.pieces()
		for i, p := range pieces {
			w.Write(p)
			if i == 0 && c.Flush == "after-first" {
				flush()
			}
		}
	})
}

func (c *c14BannerCase) pieces() [][]byte {
	switch c.Seg {
	case "none":
		return nil
	case "bytes":
		var out [][]byte
		for i := range c.body {
			out = append(out, c.body[i:i+1])
		}
		return out
	case "split", "cuts":
		var out [][]byte
		prev := 0
		for _, k := range c.Cuts {
			out = append(out, c.body[prev:k])
			prev = k
		}
		return append(out, c.body[prev:])
	}
	return [][]byte{c.body}
}

// makesHeaderCall reports whether the handler calls WriteHeader or Write at all.
func (c *c14BannerCase) makesHeaderCall() bool { return c.Explicit || len(c.pieces()) > 0 }

// c14Rec records what a handler hands to its ResponseWriter, with the
// semantics of net/http's server (and of the agent's own writer): the first
// non-informational WriteHeader fixes status and header block.
type c14Rec struct {
	hdr     http.Header
	snap    http.Header
	status  int
	wrote   bool
	interim []int
	body    bytes.Buffer
	flushes int
}

func newC14Rec() *c14Rec              { return &c14Rec{hdr: http.Header{}} }
func (r *c14Rec) Header() http.Header { return r.hdr }
func (r *c14Rec) Flush()              { r.WriteHeader(200); r.flushes++ }
func (r *c14Rec) Write(b []byte) (int, error) {
	r.WriteHeader(200)
	return r.body.Write(b)
}
func (r *c14Rec) WriteHeader(code int) {
	if r.wrote {
		return
	}
	if code >= 100 && code < 200 && code != 101 {
		r.interim = append(r.interim, code)
		return
	}
	r.wrote, r.status, r.snap = true, code, r.hdr.Clone()
}

type c14Obs struct {
	Status  int                 `json:"status"`
	Header  map[string][]string `json:"header"`
	BodyLen int                 `json:"body_len"`
	Body    string              `json:"body_head"`
	Interim []int               `json:"interim,omitempty"`
	body    []byte
}

func (r *c14Rec) obs() *c14Obs {
	r.WriteHeader(200) // what the server does when the handler returns
	o := &c14Obs{Status: r.status, Header: map[string][]string{}, body: r.body.Bytes(), BodyLen: r.body.Len(), Interim: r.interim}
	for k, v := range r.snap {
		o.Header[strings.ToLower(k)] = append([]string(nil), v...)
	}
	o.Body = c14Trunc(string(o.body), 400)
	return o
}

func c14Trunc(s string, n int) string {
	if len(s) > n {
		return fmt.Sprintf("%q…(+%d)", s[:n], len(s)-n)
	}
	return fmt.Sprintf("%q", s)
}

func c14HeaderDiff(a, b map[string][]string) []string {
	var out []string
	seen := map[string]bool{}
	for k, av := range a {
		seen[k] = true
		if bv, ok := b[k]; !ok {
			out = append(out, fmt.Sprintf("%s: %q removed", k, av))
		} else if strings.Join(av, "\x00") != strings.Join(bv, "\x00") || len(av) != len(bv) {
			out = append(out, fmt.Sprintf("%s: %q became %q", k, av, bv))
		}
	}
	for k, bv := range b {
		if !seen[k] {
			out = append(out, fmt.Sprintf("%s: %q added", k, bv))
		}
	}
	sort.Strings(out)
	return out
}

func c14FirstDiff(a, b []byte) int {
	i := 0
	for i < len(a) && i < len(b) && a[i] == b[i] {
		i++
	}
	return i
}

func c14ParseRequest(raw []byte) (*http.Request, error) {
	return http.ReadRequest(bufio.NewReader(bytes.NewReader(raw)))
}

// c14IframeSrcs returns the entity-decoded src attribute of every iframe
// start tag, tokenised the way an HTML parser does it (a quoted attribute
// value ends at the matching quote, not at '>').
func c14IframeSrcs(doc string) []string {
	var out []string
	low := strings.ToLower(doc)
	sp := func(b byte) bool { return b == ' ' || b == '\t' || b == '\n' || b == '\r' || b == '\f' }
	pos := 0
	for {
		i := strings.Index(low[pos:], "<iframe")
		if i < 0 {
			return out
		}
		p := pos + i + len("<iframe")
		pos = p
		if p >= len(doc) || !(sp(doc[p]) || doc[p] == '>' || doc[p] == '/') {
			continue
		}
		got := false
		for p < len(doc) {
			for p < len(doc) && (sp(doc[p]) || doc[p] == '/') {
				p++
			}
			if p >= len(doc) || doc[p] == '>' {
				break
			}
			ns := p
			for p < len(doc) && !sp(doc[p]) && doc[p] != '=' && doc[p] != '>' && doc[p] != '/' {
				p++
			}
			name := low[ns:p]
			if p == ns { // stray '=' and the like: skip one byte
				p++
				continue
			}
			for p < len(doc) && sp(doc[p]) {
				p++
			}
			val := ""
			if p < len(doc) && doc[p] == '=' {
				p++
				for p < len(doc) && sp(doc[p]) {
					p++
				}
				if p < len(doc) && (doc[p] == '"' || doc[p] == '\'') {
					q := doc[p]
					p++
					vs := p
					for p < len(doc) && doc[p] != q {
						p++
					}
					val = doc[vs:p]
					if p < len(doc) {
						p++
					}
				} else {
					vs := p
					for p < len(doc) && !sp(doc[p]) && doc[p] != '>' {
						p++
					}
					val = doc[vs:p]
				}
			}
			if name == "src" && !got {
				got = true
				out = append(out, html.UnescapeString(val))
			}
		}
		pos = p
	}
}

// c14FrameCheck decides whether o is a well-formed frame page for the case:
// returns "" or the name of what is missing.
func c14FrameCheck(c *c14BannerCase, wantURLs []string, o *c14Obs) (problem string, flags []string) {
	if o.Status != 200 {
		return "frame-status", nil
	}
	doc := o.body
	for _, ce := range o.Header["content-encoding"] {
		if strings.EqualFold(strings.TrimSpace(ce), "gzip") {
			zr, err := gzip.NewReader(bytes.NewReader(doc))
			if err != nil {
				return "frame-missing-url", []string{"frame-undecodable-under-declared-content-encoding"}
			}
			d, err := io.ReadAll(zr)
			if err != nil {
				return "frame-missing-url", []string{"frame-undecodable-under-declared-content-encoding"}
			}
			doc = d
		}
	}
	found := false
	for _, src := range c14IframeSrcs(string(doc)) {
		for _, w := range wantURLs {
			if src == w {
				found = true
			}
		}
	}
	if !found {
		return "frame-missing-url", nil
	}
	// "marked uncacheable": an unqualified no-store or no-cache directive (RFC 9111: no-cache="field" still allows the
	// response to be stored and reused; a token that merely contains the word does not count)
	uncacheable := false
	for _, v := range o.Header["cache-control"] {
		for _, d := range c14SplitDirectives(v) {
			if d == "no-store" || d == "no-cache" {
				uncacheable = true
			}
		}
	}
	if !uncacheable {
		return "frame-cacheable", nil
	}
	xfo := o.Header["x-frame-options"]
	if len(xfo) == 0 {
		return "frame-not-sameorigin", nil
	}
	for _, v := range xfo {
		if !strings.EqualFold(strings.TrimSpace(v), "sameorigin") {
			return "frame-not-sameorigin", nil
		}
	}
	// evidence only (the statement says "marked uncacheable", nothing finer)
	if strings.Contains(strings.ToLower(strings.Join(o.Header["pragma"], ",")), "no-cache") {
		flags = append(flags, "frame-pragma-no-cache")
	}
	if e := o.Header["expires"]; len(e) == 1 {
		if t, err := http.ParseTime(e[0]); err == nil && t.Year() < 2000 {
			flags = append(flags, "frame-expires-in-the-past")
		}
	}
	if cl := o.Header["content-length"]; len(cl) > 0 && cl[0] != fmt.Sprint(len(o.body)) {
		flags = append(flags, "frame-keeps-backend-content-length")
	}
	if strings.Contains(string(doc), c14Banners[c.Banner]) {
		flags = append(flags, "frame-contains-banner-html-verbatim")
	}
	return "", flags
}

// ---------------------------------------------------------------- banner run

// c14ServeBoth serves the scripted handler directly and through banner.Proxy.
func c14ServeBoth(c *c14BannerCase) (direct, via *c14Obs, wantURLs []string, panicked string, err error) {
	raw := c.rawRequest()
	req1, err := c14ParseRequest(raw)
	if err != nil {
		return nil, nil, nil, "", fmt.Errorf("harness request does not parse: %v", err)
	}
	req2, _ := c14ParseRequest(raw)
	wantURLs = []string{c.Target}
	if s := req1.URL.String(); s != c.Target {
		wantURLs = append(wantURLs, s)
	}
	rec1 := newC14Rec()
	if p := Recovered(func() { c.handler().ServeHTTP(rec1, req1) }); p != "" {
		return nil, nil, nil, "", fmt.Errorf("scripted handler panicked on its own: %s", p)
	}
	direct = rec1.obs()
	rec2 := newC14Rec()
	panicked = Recovered(func() {
		// metricHandler nil: what the agent passes when metrics are not configured
		h, perr := banner.Proxy(context.Background(), c.handler(), c14Banners[c.Banner], c14Heights[c.Height], c14FavIcons[c.FavIcon], nil)
		if perr != nil {
			panic("banner.Proxy returned an error: " + perr.Error())
		}
		h.ServeHTTP(rec2, req2)
	})
	via = rec2.obs()
	return
}

// c14JudgeBanner applies the oracle; returns the result line.
func c14JudgeBanner(c *c14BannerCase) c14Result {
	res := c14Result{I: c.Idx, Kind: "banner", Class: c.class()}
	direct, via, wantURLs, panicked, err := c14ServeBoth(c)
	if err != nil {
		res.Outcome, res.Sig, res.Msg = "harness-error", "HARNESS", err.Error()
		return res
	}
	fail := func(sig, msg string) c14Result {
		res.Sig, res.Msg, res.Case = sig, msg, c
		res.Detail = map[string]interface{}{"raw_request": string(c.rawRequest()), "direct": direct, "through_banner": via,
			"banner_html": c14Banners[c.Banner], "fav_icon_url": c14FavIcons[c.FavIcon], "requested_url": wantURLs}
		return res
	}
	if panicked != "" {
		res.Outcome = "panic"
		return fail("C14:panic:banner", "banner.Proxy handler panicked: "+panicked)
	}
	sameBody := bytes.Equal(direct.body, via.body)
	hdrDiff := c14HeaderDiff(direct.Header, via.Header)
	sameAll := sameBody && direct.Status == via.Status && len(hdrDiff) == 0
	frameProblem, frameFlags := c14FrameCheck(c, wantURLs, via)
	if frameProblem == "" && len(direct.body) >= 24 && bytes.Contains(via.body, direct.body) {
		// the frame page embeds the requested URL; it does not carry the backend's document along with it
		frameProblem = "frame-followed-by-original-document"
	}
	// a frame whose only fault is that a URL with HTML-special characters was
	// pasted into the src attribute unescaped gets its own signature
	unescaped := frameProblem == "frame-missing-url" && (c.URLClass == "quote" || c.URLClass == "entity") &&
		len(c14IframeSrcs(string(via.body))) > 0 && len(frameFlags) == 0
	isFrame := frameProblem == "" && !sameBody
	pre := "C14:banner:"
	if c.Interim {
		pre = "C14:banner:interim-1xx:"
	}
	describe := func() string {
		var parts []string
		if direct.Status != via.Status {
			parts = append(parts, fmt.Sprintf("status %d became %d", direct.Status, via.Status))
		}
		if len(hdrDiff) > 0 {
			parts = append(parts, "headers: "+strings.Join(hdrDiff, "; "))
		}
		if !sameBody {
			parts = append(parts, fmt.Sprintf("body %d B became %d B, first difference at offset %d", len(direct.body), len(via.body), c14FirstDiff(direct.body, via.body)))
		}
		return strings.Join(parts, " | ")
	}
	input := fmt.Sprintf("%s %s Accept=%q Sec-Fetch-Mode=%q Sec-Fetch-Dest=%q Referer[%s]=%q -> backend %d Content-Type=%q Content-Disposition=%q (D=%s framed=%s, writes=%s explicitWriteHeader=%v interim103=%v)",
		c.Method, c.Target, c.Accept.Lines, c.SFM.Lines, c.SFD.Lines, c.RefClass, c.Referer, c.Status, c.CT.Lines, c.CD.Lines, c.DStr, c.FStr, c.Seg, c.Explicit, c.Interim)

	switch {
	case c.D == c14No:
		if sameAll {
			res.Outcome = "identical"
			return res
		}
		what := "body"
		if sameBody {
			what = "headers"
			if direct.Status != via.Status {
				what = "status"
			}
		}
		res.Outcome = "altered"
		return fail(pre+"non-html-altered:"+what+":"+c.WhyNotD, "response that is not a frameable HTML document ("+c.WhyNotD+") was altered: "+describe()+" | "+input)
	case c.D == c14Yes && c.Framed == c14Yes:
		if sameBody {
			// the framed document may be marked uncacheable / same-origin-frameable; everything that describes
			// the body itself (encoding, type, length, cookies, ...) has to stay, or the "original body" is not usable
			var other []string
			for _, d := range hdrDiff {
				name := strings.ToLower(strings.SplitN(d, ":", 2)[0])
				switch name {
				case "cache-control", "date", "expires", "pragma", "x-frame-options":
				default:
					other = append(other, d)
				}
			}
			if len(other) > 0 || direct.Status != via.Status {
				res.Outcome = "altered"
				return fail(pre+"framed-headers-altered", "already framed request got the original body but not its headers: "+describe()+" | "+input)
			}
			res.Outcome = "framed-original-body"
			if !sameAll {
				res.Flags = append(res.Flags, "framed-headers-marked")
			}
			return res
		}
		res.Outcome = "altered"
		return fail(pre+"framed-body-altered", "already framed request did not get the original body: "+describe()+" | "+input)
	case c.D == c14Yes && c.Framed == c14No:
		if isFrame {
			res.Outcome, res.Flags = "frame", frameFlags
			return res
		}
		if sameAll && !c.makesHeaderCall() {
			// the handler never called WriteHeader/Write: nothing passed through the
			// writer, so whether a frame is due is not fixed by the statement
			res.Outcome = "identical"
			res.Flags = append(res.Flags, "D-but-handler-made-no-call")
			return res
		}
		if sameBody {
			res.Outcome = "frame-not-served"
			return fail(pre+"frame-not-served", "frameable HTML reply to an unframed request was passed through without the frame: "+describe()+" | "+input)
		}
		res.Outcome = "bad-frame"
		sig := pre + frameProblem
		if unescaped {
			sig = pre + "frame-url-unescaped:" + c.URLClass
		}
		return fail(sig, fmt.Sprintf("frame page is not well formed (%s): iframe src values %q, requested URL %q, Cache-Control %q, X-Frame-Options %q, status %d | %s",
			frameProblem, c14IframeSrcs(string(via.body)), wantURLs, via.Header["cache-control"], via.Header["x-frame-options"], via.Status, input))
	default:
		// classification left open by the statement (D open, or D yes with framing open)
		okIdent := sameAll
		okBody := sameBody && direct.Status == via.Status && (c.Framed != c14No || sameAll)
		okFrame := isFrame && c.Framed != c14Yes
		switch {
		case okIdent:
			res.Outcome = "open:identical"
		case okBody:
			res.Outcome = "open:original-body"
		case okFrame:
			res.Outcome, res.Flags = "open:frame", frameFlags
		case unescaped && c.Framed != c14Yes:
			res.Outcome = "bad-frame"
			return fail(pre+"frame-url-unescaped:"+c.URLClass, fmt.Sprintf("frame page is not well formed (frame-missing-url): iframe src values %q, requested URL %q | %s", c14IframeSrcs(string(via.body)), wantURLs, input))
		default:
			res.Outcome = "altered"
			return fail(pre+"open-class-neither-identical-nor-frame", fmt.Sprintf("neither the original response nor a well-formed frame (%s): %s | %s", frameProblem, describe(), input))
		}
		return res
	}
}

// ------------------------------------------------------------------ shim run

const (
	c14ShimStart = "<!--START_WEBSOCKET_SHIM-->"
	c14ShimEnd   = "<!--END_WEBSOCKET_SHIM-->"
)

var c14ShimCTs = []c14Opt{
	{"html", []string{"text/html; charset=utf-8"}, c14Yes},
	{"html-bare", []string{"text/html"}, c14Yes},
	{"html-upper", []string{"TEXT/HTML"}, c14Yes},
	{"xhtml", []string{"application/xhtml+xml"}, c14Yes},
	{"plain", []string{"text/plain"}, c14No},
	{"json", []string{"application/json"}, c14No},
	{"png", []string{"image/png"}, c14No},
	{"absent", nil, c14No},
	{"two-nonhtml", []string{"text/plain", "application/json"}, c14No},
	{"two-mixed", []string{"text/plain", "text/html"}, c14Yes}, // an HTML value is present: either outcome allowed
}

var c14ShimLayouts = []string{"at0", "small", "edge", "edge", "edge", "beyond", "absent", "twice-in", "twice-straddle", "twice-adjacent",
	"upper", "attr", "upper-then-lower", "header-then-head", "empty", "short", "ends-at-1024"}
var c14ShimSegs = []string{"all", "one", "seven", "upto", "upto", "kib", "rand"}
var c14ShimPaths = []string{"shim", "ws-shim/v1", "s"}

type c14ShimCase struct {
	Idx      int    `json:"idx"`
	ID       string `json:"id"`
	CT       c14Opt `json:"content_type"`
	Layout   string `json:"layout"`
	Heads    []int  `json:"head_offsets"` // offsets of "<head>" in the body
	BodyLen  int    `json:"body_len"`
	Seg      string `json:"read_segmentation"`
	First    int    `json:"first_read,omitempty"` // "upto": bytes returned by the first Read
	EOFData  bool   `json:"eof_with_last_data"`
	CL       bool   `json:"content_length_header"`
	ReadBuf  int    `json:"client_read_buffer"`
	ShimPath string `json:"shim_path"`
	Status   int    `json:"status"`
	body     []byte
	rseed    int64
}

func c14GenShim(seed int64, idx, ord int) *c14ShimCase {
	rng := rand.New(rand.NewSource(c14Mix(seed, int64(idx))))
	c := &c14ShimCase{Idx: idx, ID: fmt.Sprintf("s%d", idx), rseed: c14Mix(seed, int64(idx)+7)}
	// enumerate (layout, segmentation, content type); the rest is random fill
	nL, nS, nC := len(c14ShimLayouts), len(c14ShimSegs), len(c14ShimCTs)
	total := nL * nS * nC
	pos := (ord * c14Coprime(611, total)) % total
	c.Layout = c14ShimLayouts[pos%nL]
	c.Seg = c14ShimSegs[(pos/nL)%nS]
	c.CT = c14ShimCTs[pos/(nL*nS)]
	if ord%2 == 1 { // every other case is an HTML type: that is where the splice runs
		c.CT = c14ShimCTs[(pos/(nL*nS))%4]
	}
	binary := c.CT.Tri == c14No && rng.Intn(2) == 0
	put := func(b []byte, off int, tag string) []byte {
		for len(b) < off+len(tag) {
			b = append(b, ' ')
		}
		copy(b[off:], tag)
		return b
	}
	tail := rng.Intn(3000)
	if rng.Intn(4) == 0 {
		tail = 0
	}
	var b []byte
	switch c.Layout {
	case "at0":
		b = put(c14Filler(rng, 6+tail, binary), 0, "<head>")
	case "small":
		off := 1 + rng.Intn(1000)
		b = put(c14Filler(rng, off+6+tail, binary), off, "<head>")
	case "edge":
		off := 1010 + (ord/total+ord)%21 // 1010..1030: every position around the 1 KiB window
		b = put(c14Filler(rng, off+6+tail, binary), off, "<head>")
	case "beyond":
		off := 1024 + rng.Intn(5000)
		b = put(c14Filler(rng, off+6+tail, binary), off, "<head>")
	case "absent":
		b = c14Filler(rng, 1+rng.Intn(4000), binary)
	case "twice-in":
		o1 := rng.Intn(400)
		o2 := o1 + 6 + rng.Intn(400)
		b = put(put(c14Filler(rng, o2+6+tail, binary), o1, "<head>"), o2, "<head>")
	case "twice-straddle":
		o1 := rng.Intn(1000)
		o2 := 1019 + rng.Intn(3000)
		if o2 < o1+6 {
			o2 = o1 + 6
		}
		b = put(put(c14Filler(rng, o2+6+tail, binary), o1, "<head>"), o2, "<head>")
	case "twice-adjacent":
		o1 := rng.Intn(1030)
		b = put(c14Filler(rng, o1+12+tail, binary), o1, "<head><head>")
	case "upper":
		off := rng.Intn(900)
		b = put(c14Filler(rng, off+6+tail, binary), off, "<HEAD>")
	case "attr":
		off := rng.Intn(900)
		b = put(c14Filler(rng, off+16+tail, binary), off, `<head lang="en">`)
	case "upper-then-lower":
		o1 := rng.Intn(500)
		o2 := o1 + 6 + rng.Intn(1500)
		b = put(put(c14Filler(rng, o2+6+tail, binary), o1, "<HEAD>"), o2, "<head>")
	case "header-then-head":
		o1 := rng.Intn(500)
		o2 := o1 + 8 + rng.Intn(600)
		b = put(put(c14Filler(rng, o2+6+tail, binary), o1, "<header>"), o2, "<head>")
	case "empty":
		b = nil
	case "short":
		b = []byte("<head>"[:1+rng.Intn(5)])
	case "ends-at-1024":
		b = put(c14Filler(rng, 1024, binary), 1018, "<head>")
	}
	c.body, c.BodyLen = b, len(b)
	for off := 0; ; {
		i := bytes.Index(b[off:], []byte("<head>"))
		if i < 0 {
			break
		}
		c.Heads = append(c.Heads, off+i)
		off += i + 1
	}
	if c.Seg == "upto" {
		cands := []int{1, 1023, 1024, 1025}
		if len(c.Heads) > 0 {
			h := c.Heads[0]
			cands = append(cands, h, h+1, h+3, h+5, h+6, h+7)
		}
		c.First = cands[rng.Intn(len(cands))]
		if c.First < 1 {
			c.First = 1
		}
	}
	c.EOFData = rng.Intn(2) == 0
	c.CL = rng.Intn(2) == 0
	c.ReadBuf = []int{0, 0, 1, 13, 512, 4096}[rng.Intn(6)]
	c.ShimPath = c14ShimPaths[rng.Intn(len(c14ShimPaths))]
	c.Status = []int{200, 200, 200, 404, 500}[rng.Intn(5)]
	return c
}

func (c *c14ShimCase) class() string {
	return fmt.Sprintf("shim|ct:%s|%s|read:%s|cl:%v", c.CT.Name, c.Layout, c.Seg, c.CL)
}

// c14Reader is the scripted backend body.
type c14Reader struct {
	data    []byte
	pos     int
	calls   int
	seg     string
	first   int
	eofData bool
	rng     *rand.Rand
	closed  int
	firstN  int
}

func (r *c14Reader) Read(p []byte) (int, error) {
	if r.pos >= len(r.data) {
		return 0, io.EOF
	}
	if len(p) == 0 {
		return 0, nil
	}
	k := len(r.data) - r.pos
	switch r.seg {
	case "one":
		k = 1
	case "seven":
		k = 7
	case "kib":
		k = 1024
	case "rand":
		k = 1 + r.rng.Intn(2000)
	case "upto":
		if r.calls == 0 {
			k = r.first
		}
	}
	if k > len(r.data)-r.pos {
		k = len(r.data) - r.pos
	}
	if k > len(p) {
		k = len(p)
	}
	copy(p, r.data[r.pos:r.pos+k])
	r.pos += k
	if r.calls == 0 {
		r.firstN = k
	}
	r.calls++
	if r.pos == len(r.data) && r.eofData {
		return k, io.EOF
	}
	return k, nil
}
func (r *c14Reader) Close() error { r.closed++; return nil }

var c14ShimFuncs = map[string]func(*http.Response) error{}

func c14ShimFunc(path string) (func(*http.Response) error, error) {
	if f, ok := c14ShimFuncs[path]; ok {
		return f, nil
	}
	f, err := websockets.ShimBody(path)
	if err == nil {
		c14ShimFuncs[path] = f
	}
	return f, err
}

func c14JudgeShim(c *c14ShimCase) c14Result {
	res := c14Result{I: c.Idx, Kind: "shim", Class: c.class()}
	orig := c.body
	h := http.Header{}
	for _, v := range c.CT.Lines {
		h.Add("Content-Type", v)
	}
	h.Add("Set-Cookie", "a=1; Path=/")
	h.Add("Set-Cookie", "b=2; Path=/x")
	h.Add("X-Case", c.ID)
	if c.CL {
		h.Set("Content-Length", fmt.Sprint(len(orig)))
	}
	before := map[string][]string{}
	for k, v := range h {
		before[strings.ToLower(k)] = append([]string(nil), v...)
	}
	rd := &c14Reader{data: orig, seg: c.Seg, first: c.First, eofData: c.EOFData, rng: rand.New(rand.NewSource(c.rseed))}
	resp := &http.Response{StatusCode: c.Status, Status: http.StatusText(c.Status), Proto: "HTTP/1.1", ProtoMajor: 1, ProtoMinor: 1,
		Header: h, Body: rd, ContentLength: -1}
	if c.CL {
		resp.ContentLength = int64(len(orig))
	}
	var out []byte
	var ferr, rerr error
	panicked := Recovered(func() {
		f, err := c14ShimFunc(c.ShimPath)
		if err != nil {
			ferr = err
			return
		}
		if ferr = f(resp); ferr != nil {
			return
		}
		if c.ReadBuf == 0 {
			out, rerr = io.ReadAll(resp.Body)
		} else {
			buf := make([]byte, c.ReadBuf)
			for {
				n, err := resp.Body.Read(buf)
				out = append(out, buf[:n]...)
				if err == io.EOF {
					break
				}
				if err != nil {
					rerr = err
					break
				}
			}
		}
		resp.Body.Close()
	})
	after := map[string][]string{}
	for k, v := range resp.Header {
		after[strings.ToLower(k)] = append([]string(nil), v...)
	}
	firstRead := rd.firstN // what the first Read of the backend body returned
	fail := func(sig, msg string) c14Result {
		res.Sig, res.Case = sig, c
		res.Msg = fmt.Sprintf("%s | Content-Type=%q layout=%s <head> at %v of %d B, reads=%s first=%d eofWithData=%v", msg, c.CT.Lines, c.Layout, c.Heads, len(orig), c.Seg, c.First, c.EOFData)
		res.Detail = map[string]interface{}{"original_len": len(orig), "output_len": len(out), "first_difference": c14FirstDiff(orig, out),
			"original_around": c14Around(orig, c14FirstDiff(orig, out)), "output_around": c14Around(out, c14FirstDiff(orig, out)),
			"headers_before": before, "headers_after": after}
		return res
	}
	if panicked != "" {
		res.Outcome = "panic"
		return fail("C14:panic:shim", "ShimBody function or the body it installed panicked: "+panicked)
	}
	if ferr != nil || rerr != nil {
		res.Outcome = "error"
		return fail("C14:shim:unexpected-error", fmt.Sprintf("error on an error-free backend body: shim=%v read=%v", ferr, rerr))
	}
	hdrDiff := c14HeaderDiff(before, after)
	if c.CT.Tri == c14No {
		if !bytes.Equal(orig, out) {
			res.Outcome = "altered"
			return fail("C14:shim:non-html-altered:body", "body of a non-HTML response was altered")
		}
		if len(hdrDiff) > 0 {
			res.Outcome = "altered"
			return fail("C14:shim:non-html-altered:headers", "headers of a non-HTML response were altered: "+strings.Join(hdrDiff, "; "))
		}
		res.Outcome = "shim:identical-nonhtml"
		return res
	}
	// HTML: Content-Length removed or still correct
	if cl, ok := after["content-length"]; ok && (len(cl) != 1 || cl[0] != fmt.Sprint(len(out))) {
		res.Outcome = "altered"
		return fail("C14:shim:content-length-stale", fmt.Sprintf("Content-Length %q left on a body of %d B", cl, len(out)))
	}
	if bytes.Equal(orig, out) {
		res.Outcome = "shim:not-inserted"
		switch {
		case len(c.Heads) == 0:
			res.Flags = append(res.Flags, "not-inserted:no-head-tag")
		case c.Heads[0]+6 > firstRead || c.Heads[0]+6 > 1024:
			res.Flags = append(res.Flags, "not-inserted:head-beyond-first-read-or-window")
		case c.CT.Name == "two-mixed":
			res.Flags = append(res.Flags, "not-inserted:first-content-type-value-not-html")
		default:
			res.Flags = append(res.Flags, "not-inserted:head-within-first-read")
		}
		return res
	}
	res.Outcome = "altered"
	if n := bytes.Count(out, []byte(c14ShimStart)); n != 1 || bytes.Count(out, []byte(c14ShimEnd)) != 1 {
		if n > 1 {
			return fail("C14:shim:inserted-twice", fmt.Sprintf("%d script blocks in the output", n))
		}
		return fail("C14:shim:body-corrupted", "output differs from the original but holds no complete script block")
	}
	s := bytes.Index(out, []byte(c14ShimStart))
	e := bytes.Index(out, []byte(c14ShimEnd))
	if e < s {
		return fail("C14:shim:body-corrupted", "END marker before START marker")
	}
	p := s
	if !bytes.HasSuffix(out[:p], []byte("<head>")) && p > 0 && out[p-1] == '\n' {
		p-- // the newline the template emits before the START marker
	}
	q := e + len(c14ShimEnd)
	okSplice := false
	for _, qq := range []int{q + 1, q} { // with or without the template's trailing newline
		if qq <= len(out) && (qq == q || out[q] == '\n') && bytes.Equal(append(append([]byte{}, out[:p]...), out[qq:]...), orig) {
			okSplice = true
		}
	}
	if !okSplice {
		return fail("C14:shim:body-corrupted", "output minus the script block is not the original body")
	}
	if !bytes.HasSuffix(out[:p], []byte("<head>")) || len(c.Heads) == 0 || p-6 != c.Heads[0] {
		return fail("C14:shim:not-after-first-head", fmt.Sprintf("script block inserted at offset %d, first <head> is at %v", p, c.Heads))
	}
	res.Outcome = "shim:inserted"
	if c.Heads[0]+6 > firstRead {
		res.Flags = append(res.Flags, "inserted:tag-completed-after-first-read")
	}
	if !bytes.Contains(out[s:q], []byte("/"+c.ShimPath+"/")) {
		res.Flags = append(res.Flags, "script-lacks-shim-path")
	}
	return res
}

func c14Around(b []byte, at int) string {
	lo, hi := at-40, at+80
	if lo < 0 {
		lo = 0
	}
	if hi > len(b) {
		hi = len(b)
	}
	if lo > hi {
		lo = hi
	}
	return fmt.Sprintf("[%d:%d] %q", lo, hi, b[lo:hi])
}

// c14NilCases: nil response / nil body / empty header must not panic.
func c14NilCases(base int) []c14Result {
	var out []c14Result
	cases := []struct {
		name string
		resp func() *http.Response
	}{
		{"nil-response", func() *http.Response { return nil }},
		{"nil-body", func() *http.Response {
			return &http.Response{StatusCode: 304, Header: http.Header{"Content-Type": {"text/html"}}}
		}},
		{"nil-header-nil-body", func() *http.Response { return &http.Response{StatusCode: 204} }},
		{"no-body-html", func() *http.Response {
			return &http.Response{StatusCode: 200, Header: http.Header{"Content-Type": {"text/html"}}, Body: http.NoBody}
		}},
		{"nil-header-with-body", func() *http.Response {
			return &http.Response{StatusCode: 200, Body: io.NopCloser(strings.NewReader("<head>x"))}
		}},
	}
	for i, nc := range cases {
		id := fmt.Sprintf("n%d", i)
		Start(id)
		res := c14Result{I: base + i, Kind: "nil", Class: "shim|" + nc.name, Outcome: "nil:no-panic"}
		var ferr error
		var got []byte
		p := Recovered(func() {
			f, err := c14ShimFunc("shim")
			if err != nil {
				ferr = err
				return
			}
			r := nc.resp()
			if ferr = f(r); ferr == nil && r != nil && r.Body != nil {
				got, _ = io.ReadAll(r.Body)
				r.Body.Close()
			}
		})
		switch {
		case p != "":
			res.Outcome, res.Sig, res.Msg = "panic", "C14:panic:shim-"+nc.name, "ShimBody function panicked on "+nc.name+": "+p
		case ferr != nil:
			res.Outcome, res.Sig, res.Msg = "error", "C14:shim:unexpected-error", nc.name+": "+ferr.Error()
		case nc.name == "nil-header-with-body" && string(got) != "<head>x":
			res.Outcome, res.Sig, res.Msg = "altered", "C14:shim:non-html-altered:body", fmt.Sprintf("body of a response without Content-Type became %q", got)
		}
		out = append(out, res)
	}
	return out
}

// ---------------------------------------------------------------------- main

func c14Main(specJSON []byte) {
	var spec c14Spec
	if err := json.Unmarshal(specJSON, &spec); err != nil || spec.Shards <= 0 {
		Emit(map[string]string{"fatal": fmt.Sprintf("bad spec: %v", err)})
		return
	}
	_ = url.Parse // net/url is the harness' own reference for request targets
	total := spec.Banner + spec.Shim
	for idx := 0; idx < total; idx++ {
		if spec.Only >= 0 {
			if idx != spec.Only {
				continue
			}
		} else if idx%spec.Shards != spec.Shard {
			continue
		}
		if idx < spec.Banner {
			c := c14GenBanner(spec.Seed, idx)
			Start(c.ID)
			res := c14JudgeBanner(c)
			if res.Sig == "" && idx < 3*spec.Shards && spec.Only < 0 {
				res.Case = c // a few written-out cases for the evidence
			}
			Emit(res)
		} else {
			c := c14GenShim(spec.Seed, idx, idx-spec.Banner)
			Start(c.ID)
			res := c14JudgeShim(c)
			if res.Sig == "" && idx-spec.Banner < 2*spec.Shards && spec.Only < 0 {
				res.Case = c
			}
			Emit(res)
		}
	}
	if spec.Only < 0 && spec.Shard == 0 || spec.Only >= total {
		for _, res := range c14NilCases(total) {
			if spec.Only < 0 || spec.Only == res.I {
				Emit(res)
			}
		}
	}
	Emit(map[string]interface{}{"done": spec.Shard})
}

// c14SplitDirectives splits a Cache-Control value at top-level commas (quoted
// strings may contain commas) and returns the lower-cased, trimmed directives.
func c14SplitDirectives(v string) []string {
	var out []string
	cur := strings.Builder{}
	inq := false
	for i := 0; i < len(v); i++ {
		ch := v[i]
		switch {
		case ch == '"':
			inq = !inq
			cur.WriteByte(ch)
		case ch == ',' && !inq:
			out = append(out, strings.ToLower(strings.TrimSpace(cur.String())))
			cur.Reset()
		default:
			cur.WriteByte(ch)
		}
	}
	out = append(out, strings.ToLower(strings.TrimSpace(cur.String())))
	return out
}
