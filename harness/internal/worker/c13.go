package worker

// C13 — the shim only ever connects to the configured backend; requests
// outside the shim prefix pass through untouched. Cases run one at a time
// per process so that every dial is attributable to the open that caused it.

import (
	"bytes"
	"context"
	"crypto/sha256"
	"encoding/base64"
	"encoding/json"
	"fmt"
	"io"
	"math/rand"
	"net"
	"net/http"
	"net/url"
	"reflect"
	"sort"
	"strconv"
	"strings"
	"sync"
	"sync/atomic"
	"time"

	"github.com/gorilla/websocket"
)

func init() { Modes["c13"] = c13Main }

type c13Case struct {
	ID      string `json:"id"`
	Kind    string `json:"kind"` // url | nonshim
	Class   string `json:"class"`
	B64     string `json:"b64"`     // url: the open body; nonshim: the request body
	Rewrite bool   `json:"rewrite"` // rewriteWebsocketHost
	Host    string `json:"host"`    // Host header of the client request
	// nonshim
	Method   string      `json:"method,omitempty"`
	Target   string      `json:"target,omitempty"`
	Headers  [][2]string `json:"headers,omitempty"`
	ShimPath string      `json:"shim_path,omitempty"`
	Status   int         `json:"status,omitempty"`
	Seed     int64       `json:"seed,omitempty"`
	Redirect string      `json:"redirect,omitempty"` // url: "<status>;<kind>" - the backend answers the handshake with this redirect
	Then     string      `json:"then,omitempty"`     // url: after the open, the backend drops the websocket ("drop-abrupt" | "drop-graceful") and the client keeps using the session
	Decline  int         `json:"decline,omitempty"`  // url: the backend answers the first handshake of this open with this status and accepts a second one
	Origin   string      `json:"origin,omitempty"`   // url: the open request carries this Origin header
	Cancel   bool        `json:"cancel,omitempty"`   // nonshim: the client cancels the request context while the wrapped handler is running
	BodyLen  int         `json:"body_len,omitempty"` // nonshim: generate a body of this many bytes from Seed instead of B64
	Chunked  bool        `json:"chunked,omitempty"`  // nonshim: send the body with Transfer-Encoding: chunked
	N        int         `json:"n,omitempty"`        // burst: concurrent goroutines
	M        int         `json:"m,omitempty"`        // burst: opens per goroutine
	Info     bool        `json:"info,omitempty"`     // routing of this path is library-defined: observed, not judged
}

type c13Result struct {
	ID         string   `json:"id"`
	Status     int      `json:"status"`
	Dials      []string `json:"dials,omitempty"`
	URI        string   `json:"uri,omitempty"`
	Want       []string `json:"want,omitempty"`
	ParseErr   bool     `json:"parse_err"`
	Connected  bool     `json:"connected"`
	Redirects  int      `json:"redirects"`       // handshakes the backend answered with a redirect during this case
	Opens      int      `json:"opens"`           // burst: opens performed
	Shakes     int      `json:"shakes"`          // handshake requests the backend received for this open
	Later      []string `json:"later,omitempty"` // statuses of the calls made after the backend dropped the session
	Reached    bool     `json:"reached"`         // nonshim: the wrapped handler saw the request
	Violations []string `json:"violations,omitempty"`
	Note       string   `json:"note,omitempty"`
}

type c13Dials struct {
	mu   sync.Mutex
	list []string
}

func (d *c13Dials) take() []string {
	d.mu.Lock()
	defer d.mu.Unlock()
	out := d.list
	d.list = nil
	return out
}

// c13Seen is what the wrapped handler observed for one request.
type c13Seen struct {
	method, url, uri, host, proto string
	header                        http.Header
	body                          []byte
	ctxValue                      interface{} // what the request context holds under the harness' key
	sawCancel                     bool        // the handler waited and saw ctx.Done() fire
	waited                        bool
}

type c13CtxKey struct{}

type c13Wrapped struct {
	mu   sync.Mutex
	seen map[string]*c13Seen
	resp map[string]*c13Resp
}

type c13Resp struct {
	status  int
	header  http.Header
	body    []byte
	started chan struct{} // non-nil: the handler announces itself and waits for the request context to be cancelled
	wait    time.Duration
}

func (w *c13Wrapped) ServeHTTP(rw http.ResponseWriter, r *http.Request) {
	id := r.Header.Get("X-Verif-Id")
	body, _ := io.ReadAll(r.Body)
	seen := &c13Seen{method: r.Method, url: r.URL.String(), uri: r.RequestURI, host: r.Host, proto: r.Proto, header: r.Header.Clone(), body: body,
		ctxValue: r.Context().Value(c13CtxKey{})}
	w.mu.Lock()
	w.seen[id] = seen
	resp := w.resp[id]
	w.mu.Unlock()
	if resp == nil {
		rw.WriteHeader(599)
		return
	}
	if resp.started != nil { // the client is about to abandon this request: the normal path must get to know
		close(resp.started)
		saw := false
		select {
		case <-r.Context().Done():
			saw = true
		case <-time.After(resp.wait):
		}
		w.mu.Lock()
		seen.waited, seen.sawCancel = true, saw
		w.mu.Unlock()
	}
	for k, v := range resp.header {
		rw.Header()[k] = v
	}
	rw.WriteHeader(resp.status)
	rw.Write(resp.body)
}

func c13Main(specBytes []byte) {
	var spec struct {
		Cases []c13Case `json:"cases"`
	}
	if err := json.Unmarshal(specBytes, &spec); err != nil {
		panic(err)
	}
	shimInstallHooks()
	b := newShimBackend()
	dials := &c13Dials{}
	var nd net.Dialer
	websocket.DefaultDialer.NetDialContext = func(ctx context.Context, network, addr string) (net.Conn, error) {
		dials.mu.Lock()
		dials.list = append(dials.list, network+" "+addr)
		dials.mu.Unlock()
		if addr != b.addr {
			// the observation is made; do not actually reach out to a foreign peer
			return nil, fmt.Errorf("verif: dial to foreign address %q refused by the harness", addr)
		}
		return nd.DialContext(ctx, network, addr)
	}
	wrapped := &c13Wrapped{seen: map[string]*c13Seen{}, resp: map[string]*c13Resp{}}
	proxies := map[string]http.Handler{}
	proxy := func(shimPath string, rewrite bool) http.Handler {
		k := fmt.Sprintf("%s|%v", shimPath, rewrite)
		if proxies[k] == nil {
			proxies[k] = shimProxy(wrapped, b.addr, shimPath, rewrite, false)
		}
		return proxies[k]
	}
	for _, c := range spec.Cases {
		Start(c.ID)
		if c.Kind == "burst" {
			Emit(c13Burst(c, shimProxy(wrapped, b.addr, "shim", c.Rewrite, false), dials, b))
		} else if c.Kind == "nonshim" {
			Emit(c13NonShim(c, proxy(c.ShimPath, c.Rewrite), wrapped, dials, b))
		} else {
			Emit(c13URL(c, proxy("shim", c.Rewrite), dials, b))
		}
	}
	Emit(map[string]interface{}{"id": "_hits", "hits": shimHits()})
}

// c13Want computes, with net/url alone, the request URIs that carry exactly
// the path and query of the supplied URL.
func c13Want(body string) ([]string, error) {
	u, err := url.Parse(body)
	if err != nil {
		return nil, err
	}
	fix := func(p string) string {
		if p == "" {
			return "/"
		}
		if p[0] != '/' {
			return "/" + p
		}
		return p
	}
	a := fix(u.EscapedPath())
	if u.ForceQuery || u.RawQuery != "" {
		a += "?" + u.RawQuery
	}
	bb := fix((&url.URL{Path: u.Path, RawPath: u.RawPath, RawQuery: u.RawQuery, ForceQuery: u.ForceQuery}).RequestURI())
	if a == bb {
		return []string{a}, nil
	}
	return []string{a, bb}, nil
}

// c13Form names the syntactic form of an open body as net/url sees it
// (stable across seeds; used in signatures instead of the corpus class).
func c13Form(body string) string {
	u, err := url.Parse(body)
	switch {
	case err != nil:
		return "unparseable"
	case u.Opaque != "":
		return "opaque"
	case u.User != nil:
		return "userinfo"
	case u.Scheme != "" && u.Host != "":
		return "absolute"
	case u.Host != "":
		return "scheme-relative"
	case u.Scheme != "":
		return "scheme-without-host"
	}
	return "path-only"
}

func c13URL(c c13Case, h http.Handler, dials *c13Dials, b *shimBackend) c13Result {
	res := c13Result{ID: c.ID}
	body, _ := base64.StdEncoding.DecodeString(c.B64)
	dials.take()
	hdr := [][2]string{{"X-Verif-Conn", c.ID}, {"X-Websocket-Shim-Version", "1"}}
	if c.Redirect != "" {
		hdr = append(hdr, [2]string{"X-Verif-Redirect", c.Redirect})
	}
	if c.Decline > 0 {
		hdr = append(hdr, [2]string{"X-Verif-Decline-First", strconv.Itoa(c.Decline)})
	}
	if c.Origin != "" {
		hdr = append(hdr, [2]string{"Origin", c.Origin})
	}
	redirBefore := atomic.LoadInt64(&b.redirects)
	req, err := shimParse(shimRaw("POST", "/shim/open", c.Host, hdr, body))
	if err != nil {
		res.Note = "harness could not build the request: " + err.Error()
		return res
	}
	a := shimStart(h, nil, "", req).wait(20 * time.Second)
	res.Status = a.Status
	rawDials := dials.take()
	for _, d := range rawDials {
		if d == "tcp "+b.addr {
			d = "tcp <configured backend>"
		}
		res.Dials = append(res.Dials, d)
	}
	show := shimTrunc(fmt.Sprintf("%q", body), 200) + " [corpus class " + c.Class + "]"
	form := c13Form(string(body))
	res.Redirects = int(atomic.LoadInt64(&b.redirects) - redirBefore)
	if c.Redirect != "" {
		kind := c.Redirect[strings.Index(c.Redirect, ";")+1:]
		form = "redirect-" + kind
		show += fmt.Sprintf(" whose handshake the backend answered with redirect %s (%d redirect answers served)", c.Redirect, res.Redirects)
	}
	if a.Panic != "" {
		res.Violations = append(res.Violations, fmt.Sprintf("C13:panic:%s|open with body %s panicked: %s", shimSlug(a.Panic), show, a.Panic))
	} else if !a.Answered {
		res.Note = "open not answered within 20s"
	}
	for _, d := range rawDials {
		if d != "tcp "+b.addr {
			res.Violations = append(res.Violations, fmt.Sprintf("C13:dial-foreign:%s|open with body %s (rewriteHost=%v, client Host %q) made the agent dial %q; the configured backend is %q", form, show, c.Rewrite, c.Host, d, b.addr))
		}
	}
	want, perr := c13Want(string(body))
	res.ParseErr = perr != nil
	res.Want = want
	if c.Decline > 0 {
		// every handshake request the backend received for this open is judged, also the ones it turned down
		wantHost := b.addr
		if c.Rewrite && c.Host != "" {
			wantHost = c.Host
		}
		shakes := b.handshakes(c.ID)
		res.Shakes = len(shakes)
		for n, sh := range shakes {
			if sh.Host != wantHost {
				res.Violations = append(res.Violations, fmt.Sprintf("C13:host-altered:declined-first-handshake|open with body %s (rewriteHost=%v, client Host %q), backend answers the first handshake %d: handshake %d of %d carried Host %q, expected %q", show, c.Rewrite, c.Host, c.Decline, n+1, len(shakes), sh.Host, wantHost))
			}
			ok := false
			for _, w := range want {
				if w == sh.URI {
					ok = true
				}
			}
			if !ok {
				res.Violations = append(res.Violations, fmt.Sprintf("C13:uri-altered:declined-first-handshake|open with body %s, backend answers the first handshake %d: handshake %d of %d asked for %q, path and query of the supplied URL are %q", show, c.Decline, n+1, len(shakes), sh.URI, want))
			}
		}
	}
	if a.Answered && a.Status == 200 {
		var r shimOpenResp
		json.Unmarshal(a.Body, &r)
		if bc := b.conn(c.ID); bc != nil {
			res.Connected = true
			res.URI = bc.uri
			ok := c.Redirect != "" // where a followed same-backend redirect ends up is the backend's choice
			for _, w := range want {
				if w == bc.uri {
					ok = true
				}
			}
			if !ok {
				res.Violations = append(res.Violations, fmt.Sprintf("C13:uri-altered:%s|open with body %s: the backend was asked for %q, path and query of the supplied URL are %q", form, show, bc.uri, want))
			}
			wantHost := b.addr
			if c.Rewrite && c.Host != "" {
				wantHost = c.Host
			}
			if bc.host != wantHost {
				res.Violations = append(res.Violations, fmt.Sprintf("C13:host-altered:%s|open with body %s (rewriteHost=%v, client Host %q): the handshake carried Host %q, expected %q", form, show, c.Rewrite, c.Host, bc.host, wantHost))
			}
			// no header of the handshake may carry the host written in the body URL
			if u, err := url.Parse(string(body)); err == nil && len(u.Host) >= 4 && strings.ContainsAny(u.Host, ".:") && u.Host != b.addr && !strings.Contains(c.Host, u.Host) && !strings.Contains(c.Origin, u.Host) {
				for name, vals := range bc.hdr {
					if name == "Sec-Websocket-Key" {
						continue
					}
					for _, v := range vals {
						if strings.Contains(v, u.Host) || (len(u.Hostname()) >= 6 && strings.Contains(v, u.Hostname())) {
							res.Violations = append(res.Violations, fmt.Sprintf("C13:body-host-in-handshake:%s|open with body %s (Origin sent by the client: %q): the handshake the backend received carries %s: %q, which contains the host of the body URL", name, show, c.Origin, name, v))
						}
					}
				}
			}
			if c.Origin != "" && bc.hdr.Get("Origin") != c.Origin {
				res.Violations = append(res.Violations, fmt.Sprintf("C13:origin-altered:%s|open with body %s and Origin %q: the handshake carried Origin %q", form, show, c.Origin, bc.hdr.Get("Origin")))
			}
			if auth := bc.hdr.Get("Authorization"); auth != "" {
				res.Violations = append(res.Violations, fmt.Sprintf("C13:credentials-forwarded:%s|open with body %s: the handshake carried Authorization %q that the client request did not", form, show, auth))
			}
		} else {
			res.Note = "open answered 200 but the backend has no connection for it"
			res.Violations = append(res.Violations, fmt.Sprintf("C13:connected-elsewhere:%s|open with body %s answered 200 but the configured backend saw no websocket for it (dials: %v)", form, show, res.Dials))
		}
		if r.ID != "" && c.Then != "" && res.Connected {
			// the backend side goes away; the client, unaware, keeps using its session
			bc := b.conn(c.ID)
			if c.Then == "drop-abrupt" {
				bc.closeAbruptly()
				time.Sleep(5 * time.Millisecond)
			} else {
				bc.closeNow()
				bc.settled(0)
			}
			dials.take()
			for _, step := range []string{"data", "poll", "data", "close", "data"} {
				body := shimIDBody(r.ID)
				if step == "data" {
					body, _ = json.Marshal([]map[string]string{{"id": r.ID, "msg": "are you still there"}})
				}
				la := shimStart(h, nil, "", shimReq(step, nil, body)).wait(30 * time.Second)
				res.Later = append(res.Later, fmt.Sprintf("%s=%d", step, la.Status))
				if la.Panic != "" {
					res.Violations = append(res.Violations, fmt.Sprintf("C13:panic:%s|%s after the backend dropped the session opened with %s panicked: %s", shimSlug(la.Panic), step, show, la.Panic))
				}
				for _, d := range dials.take() {
					res.Dials = append(res.Dials, d)
					if d != "tcp "+b.addr {
						res.Violations = append(res.Violations, fmt.Sprintf("C13:dial-foreign:after-backend-drop|session opened with %s; the backend dropped its websocket (%s); the client's next %s call made the agent dial %q (configured backend %q)", show, c.Then, step, d, b.addr))
					}
				}
			}
		}
		if r.ID != "" {
			shimStart(h, nil, "", shimReq("close", nil, shimIDBody(r.ID))).wait(10 * time.Second)
		}
		b.forget(c.ID)
	}
	return res
}

func c13NonShim(c c13Case, h http.Handler, w *c13Wrapped, dials *c13Dials, b *shimBackend) c13Result {
	res := c13Result{ID: c.ID}
	body, _ := base64.StdEncoding.DecodeString(c.B64)
	rng := rand.New(rand.NewSource(c.Seed))
	resp := &c13Resp{status: c.Status, header: http.Header{}, body: make([]byte, rng.Intn(3000))}
	rng.Read(resp.body)
	if rng.Intn(2) == 0 {
		resp.body = []byte("<html><head><title>t</title></head><body>" + strings.Repeat("x", rng.Intn(200)) + "</body></html>")
		resp.header["Content-Type"] = []string{"text/html; charset=utf-8"}
	}
	resp.header["X-Backend-Token"] = []string{c.ID}
	resp.header["Set-Cookie"] = []string{"a=1; Path=/", "b=2; HttpOnly"}
	resp.header["x-lower-case"] = []string{"kept as written"}
	w.mu.Lock()
	w.resp[c.ID] = resp
	w.mu.Unlock()
	if c.BodyLen > 0 {
		body = make([]byte, c.BodyLen)
		rand.New(rand.NewSource(c.Seed ^ 0x5eed)).Read(body)
	}
	hdr := append([][2]string{{"X-Verif-Id", c.ID}}, c.Headers...)
	raw := shimRaw(c.Method, c.Target, c.Host, hdr, body)
	if c.Chunked {
		var cb bytes.Buffer
		fmt.Fprintf(&cb, "%s %s HTTP/1.1\r\nHost: %s\r\n", c.Method, c.Target, c.Host)
		for _, kv := range hdr {
			fmt.Fprintf(&cb, "%s: %s\r\n", kv[0], kv[1])
		}
		cb.WriteString("Transfer-Encoding: chunked\r\n\r\n")
		for at := 0; at < len(body); {
			n := 1 + rng.Intn(1<<20)
			if at+n > len(body) {
				n = len(body) - at
			}
			fmt.Fprintf(&cb, "%x\r\n", n)
			cb.Write(body[at : at+n])
			cb.WriteString("\r\n")
			at += n
		}
		cb.WriteString("0\r\n\r\n")
		raw = cb.Bytes()
	}
	req, err := shimParse(raw)
	ref, _ := shimParse(raw)
	if err != nil {
		res.Note = "harness could not build the request: " + err.Error()
		return res
	}
	dials.take()
	// the request carries a context of its own, as every request served by a real server does
	ctxVal := "ctx-of-" + c.ID
	ctx, cancel := context.WithCancel(context.WithValue(context.Background(), c13CtxKey{}, ctxVal))
	defer cancel()
	req = req.WithContext(ctx)
	attempt := func(wait time.Duration) shimAnswer {
		if c.Cancel {
			w.mu.Lock()
			resp.started, resp.wait = make(chan struct{}), wait
			started := resp.started
			w.mu.Unlock()
			p := shimStart(h, nil, "", req)
			select {
			case <-started:
				cancel() // the client goes away mid-exchange
			case a := <-p.done: // answered without ever reaching the wrapped handler
				return a
			case <-time.After(10 * time.Second):
			}
			return p.wait(wait + 10*time.Second)
		}
		return shimStart(h, nil, "", req).wait(10 * time.Second)
	}
	a := attempt(5 * time.Second)
	res.Status = a.Status
	res.Dials = dials.take()
	w.mu.Lock()
	seen := w.seen[c.ID]
	delete(w.seen, c.ID)
	delete(w.resp, c.ID)
	w.mu.Unlock()
	what := fmt.Sprintf("%s %s (shim path %q)", c.Method, c.Target, c.ShimPath)
	if a.Panic != "" {
		res.Violations = append(res.Violations, fmt.Sprintf("C13:panic:%s|%s panicked: %s", shimSlug(a.Panic), what, a.Panic))
		return res
	}
	if !a.Answered {
		res.Note = "not answered within 10s"
		return res
	}
	res.Reached = seen != nil
	if seen == nil {
		if c.Info {
			res.Note = fmt.Sprintf("handled by the shim: %d %s", a.Status, shimTrunc(string(a.Body), 80))
			return res
		}
		res.Violations = append(res.Violations, fmt.Sprintf("C13:nonshim-not-forwarded:%s|%s never reached the wrapped handler; answered %d %s", c.Class, what, a.Status, shimTrunc(string(a.Body), 120)))
		return res
	}
	if seen.ctxValue != ctxVal {
		res.Violations = append(res.Violations, fmt.Sprintf("C13:nonshim-context:value-lost|%s: the request's context carried a value; at the wrapped handler the context holds %v under that key (the request no longer has its own context)", what, seen.ctxValue))
	}
	if c.Cancel && seen.waited && !seen.sawCancel {
		res.Violations = append(res.Violations, fmt.Sprintf("C13:nonshim-context:cancel-not-propagated|%s: the client cancelled the request's context while the wrapped handler was running; 5s later the handler's context was still not done", what))
	}
	var diffs []string
	if seen.method != ref.Method {
		diffs = append(diffs, fmt.Sprintf("method %q -> %q", ref.Method, seen.method))
	}
	if seen.url != ref.URL.String() || seen.uri != ref.RequestURI {
		diffs = append(diffs, fmt.Sprintf("URL %q (%q) -> %q (%q)", ref.RequestURI, ref.URL.String(), seen.uri, seen.url))
	}
	if seen.host != ref.Host || seen.proto != ref.Proto {
		diffs = append(diffs, fmt.Sprintf("host/proto %q %q -> %q %q", ref.Host, ref.Proto, seen.host, seen.proto))
	}
	if !reflect.DeepEqual(seen.header, ref.Header) {
		diffs = append(diffs, fmt.Sprintf("headers %v -> %v", c13Hdr(ref.Header), c13Hdr(seen.header)))
	}
	if !bytes.Equal(seen.body, body) {
		diffs = append(diffs, fmt.Sprintf("body %d bytes (sha256 %x…) -> %d bytes (sha256 %x…) at the wrapped handler", len(body), sha256.Sum256(body), len(seen.body), sha256.Sum256(seen.body)))
	}
	if a.Status != resp.status {
		diffs = append(diffs, fmt.Sprintf("response status %d -> %d", resp.status, a.Status))
	}
	if !reflect.DeepEqual(a.Header, resp.header) {
		diffs = append(diffs, fmt.Sprintf("response headers %v -> %v", c13Hdr(resp.header), c13Hdr(a.Header)))
	}
	if !bytes.Equal(a.Body, resp.body) {
		diffs = append(diffs, fmt.Sprintf("response body %d bytes -> %d bytes (first difference at %d)", len(resp.body), len(a.Body), shimFirstDiff(resp.body, a.Body)))
	}
	if len(diffs) > 0 {
		res.Violations = append(res.Violations, fmt.Sprintf("C13:nonshim-altered:%s|%s: %s", c.Class, what, strings.Join(diffs, "; ")))
	}
	if len(res.Dials) > 0 {
		res.Violations = append(res.Violations, fmt.Sprintf("C13:nonshim-dialled:%s|%s reached the wrapped handler and yet the websocket dialer was used: %v", c.Class, what, res.Dials))
	}
	return res
}

func c13Hdr(h http.Header) string {
	keys := make([]string, 0, len(h))
	for k := range h {
		keys = append(keys, k)
	}
	sort.Strings(keys)
	var p []string
	for _, k := range keys {
		p = append(p, fmt.Sprintf("%s=%q", k, h[k]))
	}
	return shimTrunc(strings.Join(p, " "), 400)
}

// c13Burst: N goroutines open sessions at the same time on one handler, every
// body naming its own foreign host, port, path and query. All dials must go
// to the backend, and every backend connection must have been asked for the
// path and query of its own open.
func c13Burst(c c13Case, h http.Handler, dials *c13Dials, b *shimBackend) c13Result {
	res := c13Result{ID: c.ID}
	dials.take()
	type one struct {
		token, body string
		a           shimAnswer
	}
	all := make([][]one, c.N)
	var wg sync.WaitGroup
	for g := 0; g < c.N; g++ {
		g := g
		wg.Add(1)
		go func() {
			defer wg.Done()
			for i := 0; i < c.M; i++ {
				o := one{token: fmt.Sprintf("%s-%d-%d", c.ID, g, i)}
				scheme := []string{"ws", "wss", "http", "https"}[(g+i)%4]
				host := fmt.Sprintf("evil-%d-%d.example:%d", g, i, 1000+g*100+i)
				if (g+i)%5 == 0 {
					host = fmt.Sprintf("[2001:db8::%x:%x]:%d", g+1, i+1, 2000+i)
				}
				o.body = fmt.Sprintf("%s://%s/burst/g%d/i%d?g=%d&i=%d", scheme, host, g, i, g, i)
				req, err := shimParse(shimRaw("POST", "/shim/open", c.Host, [][2]string{{"X-Verif-Conn", o.token}, {"X-Websocket-Shim-Version", "1"}}, []byte(o.body)))
				if err != nil {
					continue
				}
				o.a = shimStart(h, nil, "", req).wait(30 * time.Second)
				all[g] = append(all[g], o)
			}
		}()
	}
	wg.Wait()
	for _, d := range dials.take() {
		if d != "tcp "+b.addr {
			res.Dials = append(res.Dials, d)
			if len(res.Violations) < 10 {
				res.Violations = append(res.Violations, fmt.Sprintf("C13:dial-foreign:concurrent-opens|%d goroutines x %d concurrent opens, each naming its own foreign host: the agent dialled %q (configured backend %q)", c.N, c.M, d, b.addr))
			}
		} else if len(res.Dials) == 0 {
			res.Dials = append(res.Dials, "tcp <configured backend>")
		}
	}
	for _, os := range all {
		for _, o := range os {
			res.Opens++
			if o.a.Panic != "" {
				res.Violations = append(res.Violations, fmt.Sprintf("C13:panic:%s|concurrent open with body %q panicked: %s", shimSlug(o.a.Panic), o.body, o.a.Panic))
				continue
			}
			if !o.a.Answered || o.a.Status != 200 {
				continue
			}
			res.Connected = true
			var r shimOpenResp
			json.Unmarshal(o.a.Body, &r)
			want, _ := c13Want(o.body)
			if bc := b.conn(o.token); bc != nil {
				ok := false
				for _, w := range want {
					if w == bc.uri {
						ok = true
					}
				}
				if !ok && len(res.Violations) < 10 {
					res.Violations = append(res.Violations, fmt.Sprintf("C13:uri-altered:concurrent-opens|%d goroutines x %d concurrent opens: the open with body %q reached the backend as %q instead of %q (another request's URL?)", c.N, c.M, o.body, bc.uri, want))
				}
			} else if len(res.Violations) < 10 {
				res.Violations = append(res.Violations, fmt.Sprintf("C13:connected-elsewhere:concurrent-opens|open with body %q answered 200 but the configured backend saw no websocket for it", o.body))
			}
			if r.ID != "" {
				shimStart(h, nil, "", shimReq("close", nil, shimIDBody(r.ID))).wait(10 * time.Second)
			}
			b.forget(o.token)
		}
	}
	res.Status = 200
	return res
}
