// Package fakes holds the harness' stand-ins for the parts of the world the
// real binaries talk to: a GCE metadata server (the agent needs one to obtain
// a token) and a scripted proxy speaking the agent protocol.
package fakes

import (
	"bufio"
	"bytes"
	"encoding/json"
	"fmt"
	"io"
	"net"
	"net/http"
	"os"
	"path/filepath"
	"strings"
	"sync"
	"sync/atomic"
	"time"

	"verif/internal/rawhttp"
)

// Metadata is a fake GCE metadata server.
type Metadata struct {
	L net.Listener
	// DelayNs (atomic) delays every reply; Reqs (atomic) counts the requests received.
	DelayNs int64
	Reqs    int64
}

func NewMetadata() (*Metadata, error) {
	l, err := net.Listen("tcp", "127.0.0.1:0")
	if err != nil {
		return nil, err
	}
	m := &Metadata{L: l}
	srv := &http.Server{Handler: http.HandlerFunc(func(w http.ResponseWriter, r *http.Request) {
		atomic.AddInt64(&m.Reqs, 1)
		if d := atomic.LoadInt64(&m.DelayNs); d > 0 {
			time.Sleep(time.Duration(d))
		}
		w.Header().Set("Metadata-Flavor", "Google")
		if strings.HasSuffix(r.URL.Path, "/token") {
			w.Header().Set("Content-Type", "application/json")
			fmt.Fprint(w, `{"access_token":"fake-token","expires_in":360000,"token_type":"Bearer"}`)
			return
		}
		fmt.Fprint(w, "ok")
	})}
	go srv.Serve(l)
	return m, nil
}

func (m *Metadata) Addr() string { return m.L.Addr().String() }
func (m *Metadata) Close()       { m.L.Close() }

// AgentEnv returns the environment the agent binary needs to start offline.
func (m *Metadata) AgentEnv(workDir string) []string {
	home := filepath.Join(workDir, "home")
	os.MkdirAll(filepath.Join(home, ".config", "gcloud"), 0o755)
	return []string{"HOME=" + home, "GCE_METADATA_HOST=" + m.Addr(), "GOOGLE_APPLICATION_CREDENTIALS=", "CLOUDSDK_CONFIG=" + filepath.Join(home, ".config", "gcloud")}
}

// Upload is one response upload attempt observed by the fake proxy.
type Upload struct {
	ID      string
	Raw     []byte           // de-chunked POST body (the serialised response)
	Resp    *rawhttp.Message // parsed inner response (nil if unparsable)
	Err     string
	At      time.Time
	Backend string
}

// Proxy is a scripted fake of the inverting proxy as seen by an agent.
type Proxy struct {
	L   net.Listener
	Srv *http.Server

	mu       sync.Mutex
	cond     *sync.Cond
	pending  []string          // IDs to hand out with the next list reply
	requests map[string][]byte // ID -> serialised request
	users    map[string]string // ID -> asserted user
	uploads  map[string][]*Upload
	done     map[string]chan struct{}
	fetches  map[string]int
	lists    int
	ListLog  []ListEvent

	// Hooks; each returns true when it fully handled the call.
	OnList     func(w http.ResponseWriter, r *http.Request) bool
	OnFetch    func(id string, w http.ResponseWriter, r *http.Request) bool
	OnResponse func(id string, w http.ResponseWriter, r *http.Request) bool
	// ListWait is how long an empty list call is held before answering [].
	ListWait time.Duration
	// Relist keeps IDs in the pending list until their response arrives (App Engine style).
	Relist bool
	closed bool
}

type ListEvent struct {
	At  time.Time
	IDs []string
}

func NewProxy() (*Proxy, error) {
	l, err := net.Listen("tcp", "127.0.0.1:0")
	if err != nil {
		return nil, err
	}
	p := &Proxy{L: l, requests: map[string][]byte{}, users: map[string]string{}, uploads: map[string][]*Upload{},
		done: map[string]chan struct{}{}, fetches: map[string]int{}, ListWait: 300 * time.Millisecond}
	p.cond = sync.NewCond(&p.mu)
	p.Srv = &http.Server{Handler: http.HandlerFunc(p.serve)}
	go p.Srv.Serve(l)
	return p, nil
}

func (p *Proxy) URL() string { return "http://" + p.L.Addr().String() + "/" }
func (p *Proxy) Close() {
	p.mu.Lock()
	p.closed = true
	p.cond.Broadcast()
	p.mu.Unlock()
	p.Srv.Close()
}

// Enqueue makes a request available to the agent.
func (p *Proxy) Enqueue(id string, raw []byte, user string) chan struct{} {
	p.mu.Lock()
	defer p.mu.Unlock()
	p.requests[id] = raw
	p.users[id] = user
	ch := make(chan struct{})
	p.done[id] = ch
	p.pending = append(p.pending, id)
	p.cond.Broadcast()
	return ch
}

// Store registers a request without listing it (for scripted list replies).
func (p *Proxy) Store(id string, raw []byte, user string) chan struct{} {
	p.mu.Lock()
	defer p.mu.Unlock()
	p.requests[id] = raw
	p.users[id] = user
	ch := make(chan struct{})
	p.done[id] = ch
	return ch
}

// Uploads returns the upload attempts seen for id.
func (p *Proxy) Uploads(id string) []*Upload {
	p.mu.Lock()
	defer p.mu.Unlock()
	return append([]*Upload(nil), p.uploads[id]...)
}

func (p *Proxy) Fetches(id string) int { p.mu.Lock(); defer p.mu.Unlock(); return p.fetches[id] }
func (p *Proxy) Lists() int            { p.mu.Lock(); defer p.mu.Unlock(); return p.lists }

// Wait waits for the first complete upload of id.
func (p *Proxy) Wait(id string, d time.Duration) (*Upload, bool) {
	p.mu.Lock()
	ch := p.done[id]
	p.mu.Unlock()
	if ch == nil {
		return nil, false
	}
	select {
	case <-ch:
		ups := p.Uploads(id)
		return ups[len(ups)-1], true
	case <-time.After(d):
		return nil, false
	}
}

func (p *Proxy) serve(w http.ResponseWriter, r *http.Request) {
	id := r.Header.Get("X-Inverting-Proxy-Request-ID")
	switch {
	case strings.HasSuffix(r.URL.Path, "agent/pending"):
		p.mu.Lock()
		p.lists++
		p.mu.Unlock()
		if p.OnList != nil && p.OnList(w, r) {
			return
		}
		p.list(w, r)
	case strings.HasSuffix(r.URL.Path, "agent/request"):
		p.mu.Lock()
		p.fetches[id]++
		raw, ok := p.requests[id]
		user := p.users[id]
		p.mu.Unlock()
		if p.OnFetch != nil && p.OnFetch(id, w, r) {
			return
		}
		if !ok {
			http.NotFound(w, r)
			return
		}
		w.Header().Set("X-Inverting-Proxy-Request-ID", id)
		w.Header().Set("X-Inverting-Proxy-User-ID", user)
		w.Header().Set("X-Inverting-Proxy-Request-Start-Time", time.Now().Format(time.RFC3339Nano))
		w.WriteHeader(200)
		w.Write(raw)
	case strings.HasSuffix(r.URL.Path, "agent/response"):
		if p.OnResponse != nil && p.OnResponse(id, w, r) {
			return
		}
		p.AcceptUpload(id, w, r, nil)
	default:
		http.NotFound(w, r)
	}
}

// AcceptUpload reads the upload, records it and answers 200. If tee is
// non-nil every piece of the de-chunked body is passed to it as it arrives.
func (p *Proxy) AcceptUpload(id string, w http.ResponseWriter, r *http.Request, tee func([]byte)) *Upload {
	up := &Upload{ID: id, Backend: r.Header.Get("X-Inverting-Proxy-Backend-ID")}
	var buf bytes.Buffer
	b := make([]byte, 64<<10)
	for {
		n, err := r.Body.Read(b)
		if n > 0 {
			buf.Write(b[:n])
			if tee != nil {
				tee(b[:n])
			}
		}
		if err == io.EOF {
			break
		}
		if err != nil {
			up.Err = err.Error()
			break
		}
	}
	up.Raw = buf.Bytes()
	up.At = time.Now()
	if up.Err == "" {
		m, err := rawhttp.ReadResponse(bufio.NewReader(bytes.NewReader(up.Raw)), p.methodOf(id))
		up.Resp = m
		if err != nil {
			up.Err = "inner response: " + err.Error()
		}
	}
	p.Record(up)
	if up.Err != "" && up.Resp == nil {
		http.Error(w, up.Err, 400)
	} else {
		w.WriteHeader(200)
	}
	return up
}

// Record stores an upload attempt and signals completion when it is whole.
func (p *Proxy) Record(up *Upload) {
	p.mu.Lock()
	defer p.mu.Unlock()
	p.uploads[up.ID] = append(p.uploads[up.ID], up)
	if ch, ok := p.done[up.ID]; ok && up.Err == "" {
		select {
		case <-ch:
		default:
			close(ch)
		}
	}
	if p.Relist {
		p.cond.Broadcast()
	}
}

func (p *Proxy) methodOf(id string) string {
	p.mu.Lock()
	raw := p.requests[id]
	p.mu.Unlock()
	if i := bytes.IndexByte(raw, ' '); i > 0 {
		return string(raw[:i])
	}
	return "GET"
}

func (p *Proxy) list(w http.ResponseWriter, r *http.Request) {
	deadline := time.Now().Add(p.ListWait)
	p.mu.Lock()
	for len(p.pending) == 0 && !p.closed && time.Now().Before(deadline) {
		// cond with timeout
		t := time.AfterFunc(time.Until(deadline)+time.Millisecond, func() { p.mu.Lock(); p.cond.Broadcast(); p.mu.Unlock() })
		p.cond.Wait()
		t.Stop()
	}
	ids := p.pending
	if p.Relist {
		var keep []string
		for _, id := range ids {
			select {
			case <-p.done[id]:
			default:
				keep = append(keep, id)
			}
		}
		p.pending = keep
		ids = append([]string(nil), keep...)
	} else {
		p.pending = nil
	}
	if ids == nil {
		ids = []string{}
	}
	p.ListLog = append(p.ListLog, ListEvent{time.Now(), ids})
	p.mu.Unlock()
	b, _ := json.Marshal(ids)
	w.WriteHeader(200)
	w.Write(b)
}
