// Package rawhttp is the harness' own minimal HTTP/1.1 wire codec. Clients
// and backends of the checks speak through it so that what the oracles
// compare is what was on the wire, not what a second copy of net/http
// normalised.
package rawhttp

import (
	"bufio"
	"bytes"
	"crypto/sha256"
	"encoding/hex"
	"errors"
	"fmt"
	"io"
	"net"
	"strconv"
	"strings"
	"time"
)

// Field is one header line as it appeared on the wire.
type Field struct {
	Name  string
	Value string
}

// Message is a parsed request or response.
type Message struct {
	StartLine  string
	Method     string // requests
	Target     string // requests
	Proto      string
	Status     int // responses
	Fields     []Field
	Body       []byte
	Chunked    bool
	ChunkSizes []int
	Trailers   []Field
	Interim    []*Message // 1xx responses that preceded a final response
	CloseDelim bool       // response body was delimited by connection close
	BodyErr    string     // non-empty if the body ended abnormally
}

// Get returns the values of the named field, case-insensitively, in order.
func (m *Message) Get(name string) []string {
	var out []string
	for _, f := range m.Fields {
		if strings.EqualFold(f.Name, name) {
			out = append(out, f.Value)
		}
	}
	return out
}

// Has reports whether the field is present.
func (m *Message) Has(name string) bool { return len(m.Get(name)) > 0 }

// GetTrailer returns the values of the named trailer field.
func (m *Message) GetTrailer(name string) []string {
	var out []string
	for _, f := range m.Trailers {
		if strings.EqualFold(f.Name, name) {
			out = append(out, f.Value)
		}
	}
	return out
}

// BodySHA returns the hex SHA-256 of the body.
func (m *Message) BodySHA() string { return SHA(m.Body) }

func SHA(b []byte) string {
	s := sha256.Sum256(b)
	return hex.EncodeToString(s[:8])
}

func readLine(br *bufio.Reader) (string, error) {
	ln, err := br.ReadString('\n')
	if err != nil {
		return ln, err
	}
	ln = strings.TrimRight(ln, "\r\n")
	return ln, nil
}

func readFields(br *bufio.Reader) ([]Field, error) {
	var out []Field
	for {
		ln, err := readLine(br)
		if err != nil {
			return out, err
		}
		if ln == "" {
			return out, nil
		}
		i := strings.IndexByte(ln, ':')
		if i < 0 {
			return out, fmt.Errorf("malformed header line %q", ln)
		}
		out = append(out, Field{Name: ln[:i], Value: strings.Trim(ln[i+1:], " \t")})
	}
}

// ReadRequest parses one request from br.
func ReadRequest(br *bufio.Reader) (*Message, error) {
	ln, err := readLine(br)
	if err != nil {
		return nil, err
	}
	for ln == "" { // tolerate a stray CRLF between pipelined requests
		if ln, err = readLine(br); err != nil {
			return nil, err
		}
	}
	m := &Message{StartLine: ln}
	parts := strings.SplitN(ln, " ", 3)
	if len(parts) != 3 {
		return nil, fmt.Errorf("malformed request line %q", ln)
	}
	m.Method, m.Target, m.Proto = parts[0], parts[1], parts[2]
	if m.Fields, err = readFields(br); err != nil {
		return m, err
	}
	err = m.readBody(br, false, false)
	return m, err
}

// ReadResponse parses one final response (collecting interim 1xx responses)
// from br. method is the request method (HEAD has no body).
func ReadResponse(br *bufio.Reader, method string) (*Message, error) {
	var interim []*Message
	for {
		ln, err := readLine(br)
		if err != nil {
			return nil, err
		}
		m := &Message{StartLine: ln}
		parts := strings.SplitN(ln, " ", 3)
		if len(parts) < 2 {
			return nil, fmt.Errorf("malformed status line %q", ln)
		}
		m.Proto = parts[0]
		m.Status, err = strconv.Atoi(parts[1])
		if err != nil {
			return nil, fmt.Errorf("malformed status line %q", ln)
		}
		if m.Fields, err = readFields(br); err != nil {
			return m, err
		}
		if m.Status >= 100 && m.Status < 200 && m.Status != 101 {
			interim = append(interim, m)
			continue
		}
		m.Interim = interim
		noBody := method == "HEAD" || m.Status == 204 || m.Status == 304
		err = m.readBody(br, true, noBody)
		return m, err
	}
}

func (m *Message) readBody(br *bufio.Reader, isResponse, noBody bool) error {
	if noBody {
		return nil
	}
	te := strings.ToLower(strings.Join(m.Get("Transfer-Encoding"), ","))
	if strings.Contains(te, "chunked") {
		m.Chunked = true
		var body bytes.Buffer
		for {
			ln, err := readLine(br)
			if err != nil {
				m.Body = body.Bytes()
				m.BodyErr = "eof in chunk header: " + err.Error()
				return errors.New(m.BodyErr)
			}
			szs := ln
			if i := strings.IndexByte(szs, ';'); i >= 0 {
				szs = szs[:i]
			}
			sz, err := strconv.ParseInt(strings.TrimSpace(szs), 16, 64)
			if err != nil || sz < 0 {
				m.Body = body.Bytes()
				m.BodyErr = fmt.Sprintf("bad chunk size %q", ln)
				return errors.New(m.BodyErr)
			}
			if sz == 0 {
				break
			}
			m.ChunkSizes = append(m.ChunkSizes, int(sz))
			if _, err := io.CopyN(&body, br, sz); err != nil {
				m.Body = body.Bytes()
				m.BodyErr = "eof in chunk data: " + err.Error()
				return errors.New(m.BodyErr)
			}
			if ln, err := readLine(br); err != nil || ln != "" {
				m.Body = body.Bytes()
				m.BodyErr = fmt.Sprintf("missing CRLF after chunk (%q, %v)", ln, err)
				return errors.New(m.BodyErr)
			}
		}
		m.Body = body.Bytes()
		tr, err := readFields(br)
		m.Trailers = tr
		if err != nil {
			m.BodyErr = "eof in trailer section: " + err.Error()
			return errors.New(m.BodyErr)
		}
		return nil
	}
	if cl := m.Get("Content-Length"); len(cl) > 0 {
		n, err := strconv.ParseInt(strings.TrimSpace(cl[0]), 10, 64)
		if err != nil || n < 0 {
			return fmt.Errorf("bad Content-Length %q", cl[0])
		}
		m.Body = make([]byte, n)
		if k, err := io.ReadFull(br, m.Body); err != nil {
			m.Body = m.Body[:k]
			m.BodyErr = fmt.Sprintf("short body: %d of %d: %v", k, n, err)
			return errors.New(m.BodyErr)
		}
		return nil
	}
	if isResponse {
		m.CloseDelim = true
		b, err := io.ReadAll(br)
		m.Body = b
		if err != nil {
			m.BodyErr = err.Error()
		}
		return nil
	}
	return nil
}

// Builder assembles wire bytes.
type Builder struct{ bytes.Buffer }

func (b *Builder) Line(s string) *Builder { b.WriteString(s); b.WriteString("\r\n"); return b }
func (b *Builder) Field(name, value string) *Builder {
	b.WriteString(name)
	b.WriteString(": ")
	b.WriteString(value)
	b.WriteString("\r\n")
	return b
}
func (b *Builder) Fields(fs []Field) *Builder {
	for _, f := range fs {
		b.Field(f.Name, f.Value)
	}
	return b
}
func (b *Builder) End() *Builder { b.WriteString("\r\n"); return b }

// Chunk appends one chunk.
func (b *Builder) Chunk(p []byte) *Builder {
	fmt.Fprintf(&b.Buffer, "%x\r\n", len(p))
	b.Write(p)
	b.WriteString("\r\n")
	return b
}

// LastChunk appends the terminating chunk and trailer section.
func (b *Builder) LastChunk(trailers []Field) *Builder {
	b.WriteString("0\r\n")
	b.Fields(trailers)
	b.WriteString("\r\n")
	return b
}

// Client is a keep-alive raw client bound to one address. Not safe for
// concurrent use; use one per goroutine.
type Client struct {
	Addr    string
	Timeout time.Duration
	conn    net.Conn
	br      *bufio.Reader
	Dials   int
}

func NewClient(addr string, timeout time.Duration) *Client {
	return &Client{Addr: addr, Timeout: timeout}
}

func (c *Client) Close() {
	if c.conn != nil {
		c.conn.Close()
		c.conn = nil
	}
}

// Do writes the raw request bytes and parses the response. On a stale
// keep-alive connection (write error or EOF before any response byte) it
// redials once.
func (c *Client) Do(raw []byte, method string) (*Message, error) {
	for attempt := 0; ; attempt++ {
		fresh := false
		if c.conn == nil {
			conn, err := net.DialTimeout("tcp", c.Addr, 5*time.Second)
			if err != nil {
				return nil, err
			}
			c.conn, c.br, fresh = conn, bufio.NewReaderSize(conn, 64<<10), true
			c.Dials++
		}
		c.conn.SetDeadline(time.Now().Add(c.Timeout))
		_, werr := c.conn.Write(raw)
		if werr != nil {
			c.Close()
			if !fresh && attempt == 0 {
				continue
			}
			return nil, werr
		}
		if _, err := c.br.Peek(1); err != nil {
			c.Close()
			if !fresh && attempt == 0 && (err == io.EOF || strings.Contains(err.Error(), "reset")) {
				continue
			}
			return nil, fmt.Errorf("no response: %w", err)
		}
		m, err := ReadResponse(c.br, method)
		if err != nil || m.CloseDelim || hasToken(m.Get("Connection"), "close") {
			c.Close()
		}
		return m, err
	}
}

func hasToken(vals []string, tok string) bool {
	for _, v := range vals {
		for _, t := range strings.Split(v, ",") {
			if strings.EqualFold(strings.TrimSpace(t), tok) {
				return true
			}
		}
	}
	return false
}

// HasToken reports whether a comma-separated field value list contains tok.
func HasToken(vals []string, tok string) bool { return hasToken(vals, tok) }

// Server is a scripted raw-TCP backend: for each parsed request the handler
// receives the request and the connection and writes whatever bytes it
// likes. It returns false to close the connection afterwards.
type Server struct {
	L       net.Listener
	Handler func(req *Message, reqErr error, conn net.Conn, br *bufio.Reader) (keep bool)
}

func NewServer(h func(req *Message, reqErr error, conn net.Conn, br *bufio.Reader) bool) (*Server, error) {
	l, err := net.Listen("tcp", "127.0.0.1:0")
	if err != nil {
		return nil, err
	}
	s := &Server{L: l, Handler: h}
	go s.serve()
	return s, nil
}

// NewServerOn is NewServer on a given address (a backend that comes up late, or comes back).
func NewServerOn(addr string, h func(req *Message, reqErr error, conn net.Conn, br *bufio.Reader) bool) (*Server, error) {
	l, err := net.Listen("tcp", addr)
	if err != nil {
		return nil, err
	}
	s := &Server{L: l, Handler: h}
	go s.serve()
	return s, nil
}

func (s *Server) Addr() string { return s.L.Addr().String() }
func (s *Server) Port() int    { return s.L.Addr().(*net.TCPAddr).Port }
func (s *Server) Close()       { s.L.Close() }

func (s *Server) serve() {
	for {
		c, err := s.L.Accept()
		if err != nil {
			return
		}
		go func(c net.Conn) {
			defer c.Close()
			br := bufio.NewReaderSize(c, 64<<10)
			for {
				req, err := ReadRequest(br)
				if req == nil {
					return
				}
				if !s.Handler(req, err, c, br) || err != nil {
					return
				}
			}
		}(c)
	}
}
