// Command vworker is the in-process engine (E2): it links the importable
// packages of /repo (through the replace directive, so always the current
// working tree) and is built with -race -tags verif by every check that
// uses it. One child process per batch; each case is announced on stderr
// ("START <case>") before it runs, so a process-fatal report is attributable.
package main

import (
	"flag"
	"fmt"
	"io"
	"os"

	"verif/internal/worker"
)

func main() {
	mode := flag.String("mode", "", "worker mode")
	flag.Parse()
	f, ok := worker.Modes[*mode]
	if !ok {
		fmt.Fprintf(os.Stderr, "unknown mode %q\n", *mode)
		os.Exit(3)
	}
	spec, err := io.ReadAll(os.Stdin)
	if err != nil {
		fmt.Fprintln(os.Stderr, err)
		os.Exit(3)
	}
	f(spec)
}
