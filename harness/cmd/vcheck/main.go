// Command vcheck is the orchestrator of every check. It never links /repo
// code: the code under test always runs in child processes, so vcheck
// survives any crash of it.
package main

import (
	"encoding/json"
	"fmt"
	"os"
	"os/signal"
	"strconv"
	"syscall"

	"verif/internal/core"
	"verif/internal/props"
)

func main() {
	// A process started as a background job of a non-interactive shell inherits SIGINT and SIGQUIT as
	// "ignored", and so would every binary we start: an agent would then not react to a SIGINT sent before it
	// installs its own handler (C20 sends one during start-up). Installing a handler here makes the kernel
	// reset both signals to their default action in the children we exec.
	sigc := make(chan os.Signal, 1)
	signal.Notify(sigc, syscall.SIGINT, syscall.SIGQUIT)
	go func() {
		<-sigc
		os.Exit(130)
	}()
	if len(os.Args) < 3 {
		fmt.Fprintln(os.Stderr, "usage: vcheck <Cxx> quick|thorough | vcheck <Cxx> --replay <file>")
		os.Exit(2)
	}
	prop, tier := os.Args[1], os.Args[2]
	if tier == "--replay" {
		if len(os.Args) < 4 {
			fmt.Fprintln(os.Stderr, "missing replay file")
			os.Exit(2)
		}
		b, err := os.ReadFile(os.Args[3])
		if err != nil {
			fmt.Fprintln(os.Stderr, err)
			os.Exit(2)
		}
		var rp struct {
			Seed int64  `json:"seed"`
			Tier string `json:"tier"`
		}
		if err := json.Unmarshal(b, &rp); err != nil {
			fmt.Fprintln(os.Stderr, err)
			os.Exit(2)
		}
		os.Setenv("VERIF_SEED", strconv.FormatInt(rp.Seed, 10))
		os.Setenv("VERIF_REPLAY", os.Args[3])
		tier = rp.Tier
	}
	f, ok := props.All[prop]
	if !ok {
		fmt.Fprintf(os.Stderr, "unknown property %q\n", prop)
		os.Exit(2)
	}
	r := core.NewRun(prop, tier)
	if os.Getenv("VERIF_REPLAY") != "" {
		r.OnlyCase = -2 // replay: do not rewrite the evidence file
	}
	f(r)
	r.Finish(1)
}
