module verif

go 1.23

require (
	github.com/anishathalye/porcupine v1.3.0
	github.com/google/inverting-proxy v0.0.0
	github.com/gorilla/websocket v1.5.0
	golang.org/x/net v0.23.0
)

replace github.com/google/inverting-proxy => /repo
