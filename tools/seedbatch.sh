#!/bin/bash
# tools/seedbatch.sh "C02 1" "C02 2" ... : runs seedtest for each pair, one summary line each
for pn in "$@"; do set -- $pn
  python3 /verif/tools/seedtest.py $1 $2 ${3:+--checks $3} 2>&1 | python3 -c "
import json,sys
try:
    d=json.load(sys.stdin)
    print('$1-$2', 'confirmed' if d['confirmed'] else 'NOT-CONFIRMED '+str({k:d.get(k) for k in ('patch_applies','compiles','existing_suite_passes')})+' demo rc without/with: '+str(d.get('demo_without_change',{}).get('rc'))+'/'+str(d.get('demo_with_change',{}).get('rc')), 'caught_by', d['caught_by'], {k:(v['rc'],v['signatures'][:3],v['wall_s']) for k,v in d['checks'].items()})
except Exception as e:
    print('$1-$2 seedtest failed:', e)
"
done
