#!/bin/bash
# usage: tools/tryseed.sh <dir-with-patch.diff> <Cxx> [tier]  — run one check against a scratch worktree with the patch
d=$(realpath "$1"); prop=$2; tier=${3:-quick}
wt=/tmp/try-$$-$(basename $(dirname $d))$(basename $d)
git -C /repo worktree add --detach "$wt" -q || exit 3
git -C "$wt" apply "$d/patch.diff" || { git -C /repo worktree remove --force "$wt"; exit 3; }
cd /verif && VERIF_REPO="$wt" ./check "$prop" "$tier" 2>&1 | grep -E "VIOLATION|signature|KNOWN|BROKEN|seed=" | cut -c1-300
git -C /repo worktree remove --force "$wt"
