#!/usr/bin/env python3
"""Prints the prompt handed to a fresh sub-agent that must produce a property-breaking change (nothing from /verif is given)."""
import json, sys
pid = sys.argv[1]
for l in open('/verif/properties.jsonl'):
    p = json.loads(l)
    if p['id'] == pid:
        break
rec = {k: p[k] for k in ('id', 'title', 'statement', 'quantifier', 'why_tests_cant', 'anchors')}
print(f"""You are given a scratch git worktree of the Go project google/inverting-proxy at /tmp/seed-{pid} (a detached checkout; work ONLY inside that directory and /tmp/seedout/{pid}; never touch /repo or /verif, never read anything under /verif). No network: every shell call needs `export GOFLAGS=-mod=mod GOPROXY=off GOSUMDB=off GOTOOLCHAIN=local` (default go is 1.23.5; all module dependencies are in the module cache).

Here is a semantic property of this code base that should always hold (JSON record):

{json.dumps(rec, indent=1)}

Task: produce TWO independent, realistic changes to the project's (non-test) source code, each of which BREAKS this property while the project still compiles (`go build ./...` and `go vet` need not be clean beyond what they already are) and the existing test suite still passes exactly as before (`go test -vet=off -count=1 ./agent/... ./utils/... ./server/... ./app/...` — note the four tests in package `agent` (agent_test.go) always fail in this sandbox with or without changes because they need pre-installed binaries; ignore those, everything else must stay green). Think of the kind of mistake a maintainer could plausibly commit in a refactoring or a 'small optimisation' (dropped lock, reordered statements, off-by-one at a boundary, a condition weakened, an error path that forgets a step, state shared that should be copied, a check applied on one path but not another), not sabotage that is obvious at a glance and not something ordinary use would expose at once: each change should need something specific to manifest — a particular interleaving, a fault at a particular point, a multi-step sequence of operations, an unusual but legal input, or two cooperating sites that each look fine alone. The two changes should break the property in different ways / at different places. Lines containing `verifhook.At(...)` are test hook points (no-ops in normal builds): leave them in place.

For each change N in {{1,2}} deliver in /tmp/seedout/{pid}/N/:
  * patch.diff — `git diff` of the change against the worktree's HEAD (must apply cleanly with `git apply` to a fresh checkout of HEAD);
  * a demonstration: either `demo_test.go` (say in meta.json which package directory it must be copied into to run, and the `go test -run` command) or a small self-contained program `demo/main.go` + how to run it, which FAILS (non-zero exit / test failure) with the change applied and PASSES without it. The demonstration must exercise the real code and check the property's observable behaviour (not grep the source). Run it both ways yourself and record the outputs. If the break is schedule-dependent, make the demonstration loop enough (or use -race) to fail reliably (>= 9 of 10 runs) with the change and never without;
  * meta.json — {{"property": "{pid}", "summary": one sentence, "what_it_needs_to_manifest": ..., "files_changed": [...], "demo_cmd": ..., "demo_output_with_change": short excerpt, "demo_output_without_change": short excerpt, "existing_tests_still_pass": true/false with the command you ran}}.
After producing each patch, restore the worktree (`git -C /tmp/seed-{pid} checkout -- . && git -C /tmp/seed-{pid} clean -fdq`) so it is clean when you finish. Do not commit anything. Final answer: a short summary of the two changes and where the files are.""")
