#!/bin/bash
# tools/thorough_all.sh <seed> <props...>: thorough tier, one after another; a copy of each evidence file is kept in evidence-thorough/
cd /verif; s=$1; shift; mkdir -p .work/sweep evidence-thorough
for p in "$@"; do
  out=.work/sweep/$p-thorough-$s.log
  VERIF_SEED=$s ./check $p thorough > $out 2>&1; rc=$?
  [ $rc = 0 ] && cp evidence/$p.json evidence-thorough/$p.json
  echo "$p thorough seed=$s rc=$rc $(tail -1 $out)"
done
