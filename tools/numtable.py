#!/usr/bin/env python3
"""Regenerates the table of DESIGN.md section 11.2 from evidence files.

usage: numtable.py <dir-with-quick-evidence> <dir-with-thorough-evidence>
Rewrites the text between <!-- numtable:begin --> and <!-- numtable:end --> in DESIGN.md.
"""
import json, sys, os, re

qdir, tdir = sys.argv[1], sys.argv[2]
SKIP = {"distinct_nontrivial", "evaluations", "inconclusive", "race_reports_attributed", "race_reports_total",
        "min_events_required", "known_findings_hit"}


def load(d, pid):
    try:
        return json.load(open(os.path.join(d, pid + ".json")))
    except Exception:
        return None


def fmt(n):
    if isinstance(n, float):
        return ("%.1f" % n)
    return f"{n:,}".replace(",", " ")


def cell(e):
    if not e:
        return "–"
    c = e["coverage"]
    return f"{fmt(c.get('evaluations', 0))} cases, {fmt(c.get('distinct_nontrivial', 0))} classes, {int(round(e.get('wall_s', 0)))} s"


def counters(e, limit=7):
    if not e:
        return ""
    c = e["coverage"]
    items = [(k, v) for k, v in c.items() if k not in SKIP and isinstance(v, (int, float)) and not isinstance(v, bool) and v]
    items.sort(key=lambda kv: (-float(kv[1]), kv[0]))
    out = [f"{k.replace('_', ' ')} {fmt(v)}" for k, v in items[:limit]]
    rr = c.get("race_reports_total")
    if rr is not None:
        out.append(f"race reports {rr} (attributed {c.get('race_reports_attributed', 0)})")
    return "; ".join(out)


rows = ["| id | quick (seed 1) | thorough (seed 1) | largest counters of the thorough run (quick where no thorough evidence) |", "|---|---|---|---|"]
for i in range(1, 21):
    pid = "C%02d" % i
    q, t = load(qdir, pid), load(tdir, pid)
    rows.append(f"| {pid} | {cell(q)} | {cell(t)} | {counters(t or q)} |")
table = "\n".join(rows)
p = "/verif/DESIGN.md"
s = open(p).read()
b, e = "<!-- numtable:begin -->", "<!-- numtable:end -->"
if b in s and e in s:
    s = s[:s.index(b) + len(b)] + "\n" + table + "\n" + s[s.index(e):]
    open(p, "w").write(s)
    print("table rewritten,", len(rows) - 2, "rows")
else:
    print(table)
