#!/bin/bash
# tools/sweep.sh <tier> <seeds...> -- <props...>: runs checks at several seeds, one line per run
tier=$1; shift
seeds=(); while [ "$1" != "--" ]; do seeds+=("$1"); shift; done; shift
mkdir -p /verif/.work/sweep
for p in "$@"; do for s in "${seeds[@]}"; do
  out=/verif/.work/sweep/$p-$tier-$s.log
  VERIF_SEED=$s /verif/check $p $tier > $out 2>&1; rc=$?
  echo "$p $tier seed=$s rc=$rc $(tail -1 $out)"
done; done
