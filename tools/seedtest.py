#!/usr/bin/env python3
"""tools/seedtest.py <prop> <n> [--tier quick|thorough] [--checks C01,C03]
Confirms a seeded breaking change produced by a fresh sub-agent (in /tmp/seedout/<prop>/<n>/) in a scratch worktree:
  demonstration passes without the change, the change applies and compiles, the existing suite (minus the four
  always-failing tests of package agent) still passes, the demonstration fails with the change;
then runs the registered check(s) against the changed tree (VERIF_REPO) and records what they reported.
On success the change is kept as /verif/seeded/<prop>-<n>/ (patch.diff, demonstration, meta.json)."""
import json, os, re, shutil, subprocess, sys, time

ENV = dict(os.environ, GOFLAGS="-mod=mod", GOPROXY="off", GOSUMDB="off", GOTOOLCHAIN="local")

def sh(cmd, cwd, timeout=1500):
    p = subprocess.run(cmd, shell=True, cwd=cwd, env=ENV, capture_output=True, text=True, timeout=timeout)
    return p.returncode, (p.stdout + p.stderr)

def main():
    prop, n = sys.argv[1], sys.argv[2]
    tier = "quick"
    pid = prop[:3]
    rnd = prop[3:]  # "" or e.g. "r2"
    checks = [pid]
    keep = True
    args = sys.argv[3:]
    while args:
        a = args.pop(0)
        if a == "--tier": tier = args.pop(0)
        elif a == "--checks": checks = args.pop(0).split(",")
        elif a == "--nokeep": keep = False
    src = f"/tmp/seedout/{prop}/{n}"
    meta = json.load(open(f"{src}/meta.json"))
    wt = f"/tmp/seedtest-{prop}-{n}"
    subprocess.run(["git", "-C", "/repo", "worktree", "remove", "--force", wt], capture_output=True)
    rc, out = sh(f"git -C /repo worktree add --detach {wt}", "/")
    if rc != 0:
        print("cannot create worktree:", out); sys.exit(2)
    result = {"head": subprocess.run(["git", "-C", "/repo", "rev-parse", "--short", "HEAD"], capture_output=True, text=True).stdout.strip()}
    try:
        demo_cmd = meta.get("demo_cmd", "")
        demo_cmd = demo_cmd.replace(f"/tmp/seed{rnd}-{pid}", wt).replace(f"/tmp/seed-{pid}", wt)
        demo_cmd = re.sub(r"cd\s+" + re.escape(wt) + r"\s*&&", "", demo_cmd)
        demo_cmd = re.sub(r"\s{2,}\(.*$", "", demo_cmd, flags=re.S)  # trailing explanatory text
        demo_cmd = demo_cmd.replace("<worktree>", wt).replace("<checkout>", wt).replace("<repo>", wt)
        demo_cmd = re.sub(r"\bcp (demo[\w./]*)", lambda m: "cp " + src + "/" + m.group(1), demo_cmd)
        demo_cmd = re.sub(r"cd\s+" + re.escape(wt) + r"\s*&&", "", demo_cmd)
        if os.environ.get("SEED_DEMO_CMD"):
            demo_cmd = os.environ["SEED_DEMO_CMD"].replace("{wt}", wt).replace("{src}", src)
        # demonstration without the change
        rc0, out0 = sh(demo_cmd, wt)
        result["demo_without_change"] = {"rc": rc0, "tail": out0[-600:]}
        sh("git clean -fdq", wt)
        # apply
        # a patch that was rebased onto a later /repo HEAD lives in /verif/seeded/<id>/patch.diff
        patch = f"{src}/patch.diff"
        rebased = f"/verif/seeded/{prop}-{n}/patch.diff"
        if os.path.exists(rebased) and sh(f"git apply --check {patch}", wt)[0] != 0:
            patch = rebased
            result["patch_used"] = rebased
        rc, out = sh(f"git apply {patch}", wt)
        result["patch_applies"] = rc == 0
        if rc != 0:
            result["apply_output"] = out[-500:]
            raise SystemExit
        rc, out = sh("go build ./... && go test -vet=off -count=1 -run XXX_NONE ./agent/ ./server/ ./app/", wt)
        result["compiles"] = rc == 0
        if rc != 0: result["build_output"] = out[-800:]
        rc, out = sh("go test -vet=off -count=1 ./agent/banner/... ./agent/metrics/... ./agent/sessions/... ./agent/utils/... ./agent/websockets/... ./utils/... ./app/... ./server/...", wt)
        result["existing_suite_passes"] = rc == 0
        if rc != 0: result["suite_output"] = out[-800:]
        rc1, out1 = sh(demo_cmd, wt)
        result["demo_with_change"] = {"rc": rc1, "tail": out1[-600:]}
        # remove the demonstration file(s) again so the checks see only the change
        sh("git clean -fdq", wt)
        result["checks"] = {}
        for c in checks:
            t0 = time.time()
            try:
                p = subprocess.run(["/verif/check", c, tier], cwd="/verif", env=dict(ENV, VERIF_REPO=wt, VERIF_SEEDTEST="1"), capture_output=True, text=True, timeout=1500)
                sigs = re.findall(r"signature: (.*)", p.stdout)
                result["checks"][c] = {"tier": tier, "rc": p.returncode, "signatures": sigs[:12], "last_line": p.stdout.strip().splitlines()[-1] if p.stdout.strip() else "", "wall_s": round(time.time() - t0, 1)}
            except subprocess.TimeoutExpired:
                result["checks"][c] = {"tier": tier, "rc": -1, "signatures": [], "last_line": "check did not finish within 1500 s", "wall_s": round(time.time() - t0, 1)}
    except SystemExit:
        pass
    finally:
        subprocess.run(["git", "-C", "/repo", "worktree", "remove", "--force", wt], capture_output=True)
        # replay files written by runs against a changed tree are not evidence about /repo
        for f in os.listdir("/verif/evidence/replays"):
            pass
    ok = (result.get("patch_applies") and result.get("compiles") and result.get("existing_suite_passes")
          and result.get("demo_without_change", {}).get("rc") == 0 and result.get("demo_with_change", {}).get("rc", 0) != 0)
    result["confirmed"] = bool(ok)
    caught = [c for c, v in result.get("checks", {}).items() if v["rc"] == 1]
    result["caught_by"] = caught
    print(json.dumps(result, indent=1))
    if ok and keep:
        dst = f"/verif/seeded/{prop}-{n}"
        os.makedirs(dst, exist_ok=True)
        for f in os.listdir(src):
            if f == "patch.diff" and result.get("patch_used"):
                continue  # keep the rebased patch
            if f in ("patch.diff", "meta.json") or f.startswith("demo"):
                if os.path.isdir(f"{src}/{f}"):
                    shutil.copytree(f"{src}/{f}", f"{dst}/{f}", dirs_exist_ok=True)
                else:
                    shutil.copy(f"{src}/{f}", f"{dst}/{f}")
        m = dict(meta)
        m["breaks_property"] = pid
        m["confirmed_by_builder"] = result
        m["what_was_run"] = (f"tools/seedtest.py {prop} {n}: fresh scratch worktree of /repo HEAD (outside /repo and /verif); demonstration without the change (must pass); "
            "git apply patch.diff; go build ./... and compile of all test packages; existing suite minus the four always-failing tests of package agent (must pass); "
            "demonstration with the change (must fail); demonstration files removed; ./check <property> quick with VERIF_REPO=<worktree>; worktree removed. "
            "Results are in confirmed_by_builder.")
        json.dump(m, open(f"{dst}/meta.json", "w"), indent=1)

main()
