#!/usr/bin/env python3
"""Regenerates the seeded-changes table in DESIGN.md from /verif/seeded/*/meta.json."""
import json, glob, os, re
first = json.load(open('/verif/seeded/first_run.json'))['missed_on_first_run']
rows = []
for d in sorted(glob.glob('/verif/seeded/C*-*')):
    name = os.path.basename(d)
    try:
        m = json.load(open(d + '/meta.json'))
    except Exception:
        continue
    cb = m.get('confirmed_by_builder', {})
    chk = cb.get('checks', {})
    sigs = []
    tiernote = ''
    for c, v in chk.items():
        if v.get('rc') == 1:
            sigs += [s for s in v.get('signatures', [])][:2]
            if v.get('tier') and v.get('tier') != 'quick':
                tiernote = ' (' + v['tier'] + ' tier only)'
    now = ('caught: ' + '; '.join('`%s`' % s for s in sigs[:2])) if sigs else 'NOT caught'
    if not sigs and name in first and 'reported by C' in first[name]:
        now = 'caught by the sibling check named under "first run"'
    now += tiernote
    if m.get('superseded'):
        now += ' (as recorded on /repo ' + str(cb.get('head', '?')) + '; the code it edits was replaced by repair 20)'
    if m.get('ported'):
        now += ' (re-expressed on the repaired tree)'
    fr = 'missed — ' + first[name] if name in first else 'caught'
    summ = re.sub(r'\s+', ' ', m.get('summary', '')).strip()
    if len(summ) > 230:
        summ = summ[:227] + '…'
    rows.append(f"| {name} | {summ} | {fr} | {now} |")
tbl = "| change | what it does | first run | now (quick tier) |\n|---|---|---|---|\n" + "\n".join(rows)
p = '/verif/DESIGN.md'
s = open(p).read()
if 'SEEDTABLE' in s:
    s = s.replace('SEEDTABLE', '<!-- seedtable:begin -->\n' + tbl + '\n<!-- seedtable:end -->')
else:
    s = re.sub(r'<!-- seedtable:begin -->.*?<!-- seedtable:end -->', lambda _: '<!-- seedtable:begin -->\n' + tbl + '\n<!-- seedtable:end -->', s, flags=re.S)
open(p, 'w').write(s)
print(len(rows), 'rows')
