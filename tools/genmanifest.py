#!/usr/bin/env python3
"""Regenerates /verif/MANIFEST.json from the table below (kept here so the manifest stays consistent)."""
import json, subprocess

def repo_commits(prefix):
    out = subprocess.run(["git", "-C", "/repo", "log", "--format=%H %s"], capture_output=True, text=True).stdout
    return [l.split()[0] for l in out.splitlines() if l.split(" ", 1)[1].startswith(prefix)]

# id -> (engine, level, technique, text, note, design_ref)
CHECKS = {
 "C01": ("E1", "exploration",
   "runtime monitoring: token-tagged black-box observation of real server+agent under 1-128-way concurrency + Go race detector + crash monitor",
   "Real race-built server and agent binaries run under barrier-released bursts of token-tagged requests; offline oracles compare every token site the client saw with its own token, count backend arrivals per token, check request-ID uniqueness from the server log and treat any race report with a frame in the anchored files as a violation. Further lanes: an agent with a 2 s proxy time-out, requests whose responses depend on later requests, 1300+ clients queued before the agent connects, a shim-enabled round, clients that walk away or pause mid-upload, clients that nominate shared field names in Connection, and a proxy restarted on its port while the agent keeps running. Decides the property on the executions produced (thousands to tens of thousands of requests per run), not for all schedules.",
   "Trusted: the harness' raw HTTP codec, scripted backend and token discipline; loopback TCP; the Go race detector's happens-before model. Schedules explored are those the kernel/Go scheduler produce under bursts and token-dependent backend latency.",
   "DESIGN.md §3 C01"),
 "C02": ("E1", "exploration",
   "runtime monitoring: wire-level differential observer (raw-TCP client vs raw-TCP recording backend) over grammar-generated requests + race detector + crash monitor",
   "Grammar-generated well-formed requests are sent byte-for-byte by a raw client through the real server and agent to a raw recording backend; the request fidelity oracle compares method, target, Host, every end-to-end field's ordered value list, absence of planted hop-by-hop tokens, and body length/SHA. Holds on the generated inputs only.",
   "Trusted: harness codec and generator; the classes excluded as not well-formed / protocol-special are listed in DESIGN.md §3 C02 and §4. A second flavour sends the same generator through an agent started with --force-http2 --debug to an h2c recording backend (Cookie excluded there: HTTP/2 may re-split cookie pairs).",
   "DESIGN.md §3 C02"),
 "C03": ("E1", "exploration",
   "runtime monitoring: wire-level differential observer over scripted backend responses (all statuses 200-599, framings, trailers, 1xx, delays) + race detector",
   "A scripted raw backend emits responses covering every final status 200-599 with generated header sets, framings, body sizes at buffer boundaries, declared/undeclared trailers, interim 1xx responses and inter-part delays; a raw client parses what comes back through server+agent and the response fidelity oracle compares status, fields, hop-by-hop tokens, body and trailer section. Races in the anchored files count as violations.",
   "Trusted: harness codec; relaying of interim responses and fields added under names the backend did not use are deliberately not judged; default agent configuration, plus four configurations without injection through which HTML documents must pass unaltered, and an h2c flavour.",
   "DESIGN.md §3 C03"),
 "C04": ("E1", "exploration",
   "runtime monitoring: exactly-once checker over recorded events (backend arrival counts per unique ID; multiset of IDs over all pending-list replies) with scripted list histories and concurrent pollers",
   "Part (a): the real agent is fed generated histories of pending-list replies (repeats, duplicates, permutations, overlaps, re-listing until/after completion, window-edge histories with 999 intervening IDs) by a scripted fake proxy; a counting backend decides at-most-once / exactly-once per ID. Part (b): the real stand-alone proxy serves N raw clients and M concurrent pollers; the union of all list replies must contain each client's ID exactly once.",
   "Trusted: fault-free transport between agent, fake proxy and backend; nothing asserted beyond the 1000-ID window.",
   "DESIGN.md §3 C04"),
 "C05": ("E1", "exploration",
   "runtime monitoring: lock-step progress monitor (backend emits chunk i+1 only after the proxy-side observer saw chunk i) with bounded-progress verdicts confirmed by solo re-run",
   "The fake proxy de-chunks the agent's upload incrementally and parses the inner response on the fly; the backend advances only after the observer has seen the previous chunk, so any buffering that waits for more output or for the end of the response deadlocks the lock-step and is reported after the 5 s bound (re-confirmed alone at 10 s). Five agents (plain, websocket shim, sessions+banner, VM-identity round tripper against a fake metadata server, health checks against a backend that is busy while it streams) and an h2c lane; cases with announced trailers, missing Content-Type, pending-list blips, 11.5 s silences and an upload attempt that is rejected after the first chunk. Chunk latencies observed are reported.",
   "Unbounded 'eventually' replaced by T=5 s (>=20x observed); a miss decides only after a solo re-run.",
   "DESIGN.md §3 C05"),
 "C06": ("E2", "fault_enumeration",
   "runtime monitoring: enumerated fault scripts against the real upload path in a race-built in-process worker; byte-exact oracle on every acknowledged attempt + race detector + hang watchdog",
   "utils.NewResponseForwarder is driven with a real http.Client against a byte-level TCP fault server; fault kind x offset x attempt pattern (<=3) x size class x producer timing are enumerated (quick: ~430 scripts, thorough: ~13 000). Every attempt the server acknowledged after reading the terminating chunk must parse to exactly the response the handler wrote; attempts are counted; a retry after >4096 received bytes is refuted; handler return is bounded by 10 s (confirmed alone at 20 s).",
   "Trusted: the fault server's own de-chunker; HTTP/1.1 transport to the proxy only.",
   "DESIGN.md §3 C06"),
 "C07": ("E1", "fault_enumeration",
   "runtime monitoring: enumerated fault catalogue injected into a live agent while 8 lanes of healthy probes run; process-liveness, crash-marker and probe-correctness monitors + race detector",
   "Faults at every injection point (pending list, fetch, backend connect/headers/body, upload, shim endpoints; 48 kinds) are injected one after another into three agent configurations while healthy token requests run continuously; any probe that fails before/during/after a fault, any crash marker or exit of the agent, and a missing/non-502 answer for an unreachable backend are violations.",
   "A fault may fail its own request in any way. Probe bound 20 s. Three agent configurations: plain, --force-http2 (h2c backend with handler-level faults), shim+sessions+banner (with healthy websocket-shim session lanes).",
   "DESIGN.md §3 C07"),
 "C08": ("E2+E1", "exploration",
   "runtime monitoring: reference-model monitor over direct calls (integer specification of the delay range) + load-safe inequalities over fake-proxy arrival timestamps of the agent binary",
   "ExponentialBackoffDuration(n) is sampled for n in 0..70, around 2^31/2^32/2^63, 2^64-1 and random 64-bit values against an independent integer specification; the agent binary is run against a fake proxy failing list calls by script and only inequalities that load cannot falsify decide (gap >= 0.9*base; reset shown by a short gap after 11 failures + 1 success, reported only if the long gap repeats 3 times).",
   "Upper bounds on observed gaps never decide (load-dependent); jitter distribution is only range-checked.",
   "DESIGN.md §3 C08"),
 "C09": ("E1", "exploration",
   "runtime monitoring: boundary observer of the header lines the backend / websocket handshake actually received vs the identity asserted by the fake proxy",
   "Agent configurations over {forward-user-id, strip-credentials, shim, sessions}; clients plant forged identity fields and Authorization fields in all case variants; the raw backend records plain requests and websocket handshakes; with forwarding on the value list of X-Inverting-Proxy-User-ID must be exactly [asserted identity], with stripping on no field named Authorization may arrive.",
   "Nothing asserted when the respective option is off.",
   "DESIGN.md §3 C09"),
 "C14": ("E2+E1", "exploration",
   "runtime monitoring: differential monitor (same scripted handler served directly and through banner.Proxy; ShimBody applied to scripted readers) with an independent classification oracle, plus an end-to-end sample through the agent binary",
   "Enumerated product of request/response dimensions with random fill; non-HTML / non-200 / non-GET / attachment responses must be byte-identical to the direct run, frame pages must embed the requested URL and carry the cache / frame headers, shim output must be prefix+one block+suffix with prefix ending at the first <head>.",
   "Inputs whose classification the statement leaves open get only the disjunction 'identical or well-formed frame'.",
   "DESIGN.md §3 C14"),
 "C20": ("E1", "exploration",
   "runtime monitoring: ordering oracles on one monotonic clock over health-reply / proxy-request / process-exit events of the real agent binary; shutdown phases held (not timed) by the harness",
   "Health histories F^k P, P(F^(t-1)P)^m F^t for t in 1..3 and two failure kinds; shutdown scenarios signal x grace period x phase of the in-flight request x backend finishing inside/outside the period. Judged: no proxy request before the first passing reply was sent, no exit with fewer than t trailing failures, exit within 10 s of the t-th, in-flight request answered in full when the backend finishes inside the period, no list call after the announced shutdown once the held one returned, exit not before the period ended and not seconds after it, no health check after the t-th consecutive failure, health checking never stops; scenarios with second signals, fractional periods, a rejected first upload, the shim and health checks enabled, a proxy time-out shorter than the period, and a signal right after a slow start (hook utils.signals.install).",
   "Progress bound T=10 s; phases before the request reached the backend are outside the statement.",
   "DESIGN.md §3 C20"),

 "C10": ("E2", "exploration",
   "runtime monitoring: reference-model monitor (one net/http/cookiejar per issued session) over sequential histories; concurrent phase with tag-safety oracle, porcupine linearizability check per (session, cookie name), quiescent model comparison, hook-forced first-use overlaps + race detector",
   "sessions.SessionHandler is driven in a race-built worker with http.ReadRequest-built requests against a scripted backend; the model jar decides exactly which cookies the backend must see, client-visible Set-Cookie must be only the agent's session cookie with the stated attributes; concurrent rounds record call/return windows from one clock and are checked with porcupine v1.3.0 (60 s timeout => inconclusive); eviction histories assert only the limit-1 most recently used sessions; 'served' histories run the handler under a real net/http server in front of a real httputil.ReverseProxy (plain, streamed and websocket-handshake requests).",
   "Jar semantics are net/http/cookiejar's for https://<Host><path>; empty-valued session cookies are not generated; time margins >= 60 s. An end-to-end sample drives the agent binary with sessions and the websocket shim enabled (plain requests and shim opens under path-scoped cookies).",
   "DESIGN.md §3 C10"),
 "C11": ("E2", "exploration",
   "runtime monitoring: exactly-once / in-order checker over recorded message sequences at both ends of the shim (unique payloads), batching varied; JSON-equality oracle for header injection",
   "websockets.Proxy + a real gorilla websocket backend in a race-built worker; generated text/binary sequences partitioned into data posts and polls; the sequence the backend received and the concatenation of decoded poll replies must equal what was sent; with injection only resource.headers may gain absent keys.",
   "One data post and one poll outstanding per session, as the injected browser shim does; JSON numbers kept float64-exact.",
   "DESIGN.md §3 C11"),
 "C12": ("E2", "exploration",
   "runtime monitoring: bounded-exhaustive call histories against a session model + hook-forced interleavings (barriers at verifhook points, both orders) + stress, with panic/crash monitor, answer-within-bound monitor and race detector",
   "All call sequences up to length 4 (sampled to 7 in thorough) over open/data/poll/close x valid/unknown/closed/malformed plus backend-send/backend-close; concurrent pairs on one session forced into both orders at the hook points; every call must be answered with 200/400/408/500 within its bound, unknown/closed sessions never get 200, close reaches the backend, backend-initiated close delivers queued messages then 400; no panic, no attributed race.",
   "Bounds: poll 30 s, others 10 s, misses confirmed by solo re-run; only the interleavings produced/forced are decided.",
   "DESIGN.md §3 C12"),
 "C13": ("E2", "exploration",
   "runtime monitoring: dial observer (websocket.DefaultDialer.NetDialContext seam records every address dialled) + backend-side URI observer over an enumerated/mutated URL corpus; differential check for non-shim paths",
   "Open bodies from enumerated URL syntax classes expanded by seeded mutation; every dialled address must be the configured backend and the URI the backend saw must be the input's escaped path and raw query; requests outside the shim prefix (incl. near misses) must reach the wrapped handler unchanged.",
   "The strace sample of the agent binary was not built; paths Go's ServeMux redirects itself are not generated.",
   "DESIGN.md §3 C13"),
 "C15": ("E1+E2", "exploration",
   "runtime monitoring: prefix/SHA-256 stream verifier on tagged PRNG streams through the real bridge binaries (both directions, 1-48 concurrent connections, write/read segmentation product) + in-process websocket-peer cases + request fidelity oracle for passthrough + race detector",
   "Every read at the far end is compared with the regenerated stream (first differing offset reported), final length and hash compared; E2 cases cover partial consumption of messages, frames interleaved with non-text frames, >32 KiB writes; passthrough requests compared with the C02 oracle.",
   "X-Forwarded-For may gain the proxy's client IP on passthrough; h2c towards the backend not exercised.",
   "DESIGN.md §3 C15"),
 "C16": ("E1", "exploration",
   "runtime monitoring: bounded-progress monitor for EOF propagation (T=10 s, solo-confirmed) + socket census of the bridge processes (/proc/<pid>/fd) at quiescence",
   "Close scenarios {client first, server first} x {idle, data in flight either/both directions} x sizes and connection churn; the far peer must read EOF after all data sent before the close, and both processes' socket counts must return to baseline once both peers are gone.",
   "Unbounded 'eventually' replaced by T=10 s; completeness of pre-close data judged only where the closer had nothing unread (TCP reset semantics).",
   "DESIGN.md §3 C16"),
 "C17": ("E3", "exploration",
   "runtime monitoring: the production appengine HTTP entry point driven in-package against a fake App Engine API with an operation log; independent access-control specification over enumerated (identity, endpoint, backend, request) combinations",
   "go test -c -overlay adds a driver to /repo/app without touching it; unauthorised agent calls must get 401 with zero mutating API calls and no planted secret in the body; authorised calls may touch only their backend's entities; non-admins get 403 and mutate nothing; routed end users only reach their own or allUsers backends.",
   "The fake datastore/memcache/user API implements the documented contract (strongly consistent, transactions not isolated); /cron/delete is not judged (restricted by app.yaml).",
   "DESIGN.md §3 C17"),
 "C18": ("E3", "exploration",
   "runtime monitoring: bounded-exhaustive comparison of the real caching+persistent store's LookupBackend (and a sample through the client handler) with an independent longest-prefix specification, under every insertion order",
   "All one- and two-backend configurations plus random sets of 2-4 backends with prefix lists, users, paths and last-seen ages; result must be a live member of the longest-prefix class (user's backends first, shared only when the user has no match) or 404 as the statement allows; identical on repetition and under every insertion order.",
   "Ties and a non-live member of the longest-prefix class admit 404 or any live member; liveness ages kept >= 60 s from the 5-minute boundary.",
   "DESIGN.md §3 C18"),
 "C19": ("E3", "fault_enumeration",
   "runtime monitoring: token-tagged end-to-end exchanges through the production handlers on a fake App Engine API + blob round trips at the 1 MB boundaries + enumerated single/pair store faults with a bounded-return (T=45 s, solo-confirmed) monitor + race detector",
   "Concurrent clients and pollers with the 8x8 product of boundary payload sizes; fetched bytes must parse to the client's request, the client must get exactly the response posted under its ID or 504, completed IDs leave the pending list; every (service, method, kind) call at every endpoint is failed in turn (and every pair for the response post) and every handler call must return.",
   "Fake API is strongly consistent; eventual-consistency effects are out of reach.",
   "DESIGN.md §3 C19"),
}

PENDING = {}

def main():
    props = [json.loads(l) for l in open("/verif/properties.jsonl")]
    checks = []
    na = []
    for p in props:
        pid = p["id"]
        if pid in CHECKS:
            eng, level, tech, text, note, ref = CHECKS[pid]
            checks.append({
                "property_id": pid,
                "quick_cmd": f"./check {pid} quick",
                "thorough_cmd": f"./check {pid} thorough",
                "evidence_file": f"/verif/evidence/{pid}.json",
                "replay_cmd_template": f"./check {pid} --replay {{path}}",
                "engine": eng,
                "level_claimed": {"category": level, "text": text, "design_ref": ref},
                "level_note": note,
                "technique": tech,
            })
        else:
            na.append({"property_id": pid, "reason": PENDING.get(pid, "check not built yet in this round; runtime monitoring is applicable (see DESIGN.md §3) - listed here only until the check is registered")})
    m = {
        "version": 1,
        "setup_cmd": "./setup.sh",
        "hooks": {
            "guard": "verif",
            "enable": "go build -race -tags verif (done by ./check for every binary and worker it builds from /repo's working tree)",
            "baseline_off_cmd": "cd /repo && GOFLAGS=-mod=mod GOPROXY=off GOSUMDB=off GOTOOLCHAIN=local go test -json -vet=off -count=1 -timeout 25m ./...",
            "source_commits": repo_commits("verif:"),
            "add_only": True,
        },
        "engines": [
            {"name": "E1", "path": "/verif/harness/internal/props", "serves_properties": ["C01","C02","C03","C04","C05","C07","C08","C09","C15","C16","C20"], "kind_free_text": "black-box topology: race-built real binaries as child processes, harness plays clients/backends/fake proxy over real sockets; offline oracles over recorded boundary events"},
            {"name": "E2", "path": "/verif/harness/cmd/vworker", "serves_properties": ["C06","C08","C10","C11","C12","C13","C14","C15","C16"], "kind_free_text": "in-process worker linking /repo packages with -race -tags verif, one child process per batch, hooks for forced interleavings"},
            {"name": "E3", "path": "/verif/harness/appoverlay", "serves_properties": ["C17","C18","C19"], "kind_free_text": "go test -c -overlay of /repo/app driving the production appengine handler against a fake App Engine API (datastore, memcache, user)"},
        ],
        "checks": checks,
        "notes": "Technique family: runtime monitoring and sanitizers only. Known findings and repaired defects: /verif/known_findings.json. Seeded breaking changes used to validate the monitors: /verif/seeded/.",
        "not_applicable": na,
    }
    json.dump(m, open("/verif/MANIFEST.json", "w"), indent=1)
    print("checks:", len(checks), "not_applicable:", len(na))

main()
