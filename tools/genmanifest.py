#!/usr/bin/env python3
"""Regenerates /verif/MANIFEST.json from the table below (kept here so the manifest stays consistent)."""
import json, subprocess

def repo_commits(prefix):
    out = subprocess.run(["git", "-C", "/repo", "log", "--format=%H %s"], capture_output=True, text=True).stdout
    return [l.split()[0] for l in out.splitlines() if l.split(" ", 1)[1].startswith(prefix)]

# id -> (engine, level, technique, text, note, design_ref)
CHECKS = {
 "C01": ("E1", "exploration",
   "runtime monitoring: token-tagged black-box observation of real server+agent under 1-128-way concurrency + Go race detector + crash monitor",
   "Real race-built server and agent binaries run under barrier-released bursts of token-tagged requests; offline oracles compare every token site the client saw with its own token, count backend arrivals per token, check request-ID uniqueness from the server log and treat any race report with a frame in the anchored files as a violation. Decides the property on the executions produced (hundreds to tens of thousands of requests per run), not for all schedules.",
   "Trusted: the harness' raw HTTP codec, scripted backend and token discipline; loopback TCP; the Go race detector's happens-before model. Schedules explored are those the kernel/Go scheduler produce under bursts and token-dependent backend latency.",
   "DESIGN.md §3 C01"),
}

PENDING = {}

def main():
    props = [json.loads(l) for l in open("/verif/properties.jsonl")]
    checks = []
    na = []
    for p in props:
        pid = p["id"]
        if pid in CHECKS:
            eng, level, tech, text, note, ref = CHECKS[pid]
            checks.append({
                "property_id": pid,
                "quick_cmd": f"./check {pid} quick",
                "thorough_cmd": f"./check {pid} thorough",
                "evidence_file": f"/verif/evidence/{pid}.json",
                "replay_cmd_template": f"./check {pid} --replay {{path}}",
                "engine": eng,
                "level_claimed": {"category": level, "text": text, "design_ref": ref},
                "level_note": note,
                "technique": tech,
            })
        else:
            na.append({"property_id": pid, "reason": PENDING.get(pid, "check not built yet in this round; runtime monitoring is applicable (see DESIGN.md §3) - listed here only until the check is registered")})
    m = {
        "version": 1,
        "setup_cmd": "./setup.sh",
        "hooks": {
            "guard": "verif",
            "enable": "go build -race -tags verif (done by ./check for every binary and worker it builds from /repo's working tree)",
            "baseline_off_cmd": "cd /repo && GOFLAGS=-mod=mod GOPROXY=off GOSUMDB=off GOTOOLCHAIN=local go test -json -vet=off -count=1 -timeout 25m ./...",
            "source_commits": repo_commits("verif:"),
            "add_only": True,
        },
        "engines": [
            {"name": "E1", "path": "/verif/harness/internal/props", "serves_properties": ["C01","C02","C03","C04","C05","C07","C08","C09","C15","C16","C20"], "kind_free_text": "black-box topology: race-built real binaries as child processes, harness plays clients/backends/fake proxy over real sockets; offline oracles over recorded boundary events"},
            {"name": "E2", "path": "/verif/harness/cmd/vworker", "serves_properties": ["C06","C08","C10","C11","C12","C13","C14","C15","C16"], "kind_free_text": "in-process worker linking /repo packages with -race -tags verif, one child process per batch, hooks for forced interleavings"},
            {"name": "E3", "path": "/verif/harness/appoverlay", "serves_properties": ["C17","C18","C19"], "kind_free_text": "go test -c -overlay of /repo/app driving the production appengine handler against a fake App Engine API (datastore, memcache, user)"},
        ],
        "checks": checks,
        "notes": "Technique family: runtime monitoring and sanitizers only. Known findings and repaired defects: /verif/known_findings.json. Seeded breaking changes used to validate the monitors: /verif/seeded/.",
        "not_applicable": na,
    }
    json.dump(m, open("/verif/MANIFEST.json", "w"), indent=1)
    print("checks:", len(checks), "not_applicable:", len(na))

main()
