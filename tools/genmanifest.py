#!/usr/bin/env python3
"""Regenerates /verif/MANIFEST.json from the table below (kept here so the manifest stays consistent)."""
import json, subprocess

def repo_commits(prefix):
    out = subprocess.run(["git", "-C", "/repo", "log", "--format=%H %s"], capture_output=True, text=True).stdout
    return [l.split()[0] for l in out.splitlines() if l.split(" ", 1)[1].startswith(prefix)]

# id -> (engine, level, technique, text, note, design_ref)
CHECKS = {
 "C01": ("E1", "exploration",
   "runtime monitoring: token-tagged black-box observation of real server+agent under 1-128-way concurrency + Go race detector + crash monitor",
   "Real race-built server and agent binaries run under barrier-released bursts of token-tagged requests; offline oracles compare every token site the client saw with its own token, count backend arrivals per token, check request-ID uniqueness from the server log and treat any race report with a frame in the anchored files as a violation. Decides the property on the executions produced (thousands to tens of thousands of requests per run), not for all schedules.",
   "Trusted: the harness' raw HTTP codec, scripted backend and token discipline; loopback TCP; the Go race detector's happens-before model. Schedules explored are those the kernel/Go scheduler produce under bursts and token-dependent backend latency.",
   "DESIGN.md §3 C01"),
 "C02": ("E1", "exploration",
   "runtime monitoring: wire-level differential observer (raw-TCP client vs raw-TCP recording backend) over grammar-generated requests + race detector + crash monitor",
   "Grammar-generated well-formed requests are sent byte-for-byte by a raw client through the real server and agent to a raw recording backend; the request fidelity oracle compares method, target, Host, every end-to-end field's ordered value list, absence of planted hop-by-hop tokens, and body length/SHA. Holds on the generated inputs only.",
   "Trusted: harness codec and generator; the classes excluded as not well-formed / protocol-special are listed in DESIGN.md §3 C02 and §4.",
   "DESIGN.md §3 C02"),
 "C03": ("E1", "exploration",
   "runtime monitoring: wire-level differential observer over scripted backend responses (all statuses 200-599, framings, trailers, 1xx, delays) + race detector",
   "A scripted raw backend emits responses covering every final status 200-599 with generated header sets, framings, body sizes at buffer boundaries, declared/undeclared trailers, interim 1xx responses and inter-part delays; a raw client parses what comes back through server+agent and the response fidelity oracle compares status, fields, hop-by-hop tokens, body and trailer section. Races in the anchored files count as violations.",
   "Trusted: harness codec; relaying of interim responses and fields added under names the backend did not use are deliberately not judged; default agent configuration only.",
   "DESIGN.md §3 C03"),
 "C04": ("E1", "exploration",
   "runtime monitoring: exactly-once checker over recorded events (backend arrival counts per unique ID; multiset of IDs over all pending-list replies) with scripted list histories and concurrent pollers",
   "Part (a): the real agent is fed generated histories of pending-list replies (repeats, duplicates, permutations, overlaps, re-listing until/after completion, window-edge histories with 999 intervening IDs) by a scripted fake proxy; a counting backend decides at-most-once / exactly-once per ID. Part (b): the real stand-alone proxy serves N raw clients and M concurrent pollers; the union of all list replies must contain each client's ID exactly once.",
   "Trusted: fault-free transport between agent, fake proxy and backend; nothing asserted beyond the 1000-ID window.",
   "DESIGN.md §3 C04"),
 "C05": ("E1", "exploration",
   "runtime monitoring: lock-step progress monitor (backend emits chunk i+1 only after the proxy-side observer saw chunk i) with bounded-progress verdicts confirmed by solo re-run",
   "The fake proxy de-chunks the agent's upload incrementally and parses the inner response on the fly; the backend advances only after the observer has seen the previous chunk, so any buffering that waits for more output or for the end of the response deadlocks the lock-step and is reported after the 5 s bound (re-confirmed alone at 10 s). Chunk latencies observed are reported.",
   "Unbounded 'eventually' replaced by T=5 s (>=20x observed); a miss decides only after a solo re-run.",
   "DESIGN.md §3 C05"),
 "C06": ("E2", "fault_enumeration",
   "runtime monitoring: enumerated fault scripts against the real upload path in a race-built in-process worker; byte-exact oracle on every acknowledged attempt + race detector + hang watchdog",
   "utils.NewResponseForwarder is driven with a real http.Client against a byte-level TCP fault server; fault kind x offset x attempt pattern (<=3) x size class x producer timing are enumerated (quick: ~430 scripts, thorough: ~13 000). Every attempt the server acknowledged after reading the terminating chunk must parse to exactly the response the handler wrote; attempts are counted; a retry after >4096 received bytes is refuted; handler return is bounded by 10 s (confirmed alone at 20 s).",
   "Trusted: the fault server's own de-chunker; HTTP/1.1 transport to the proxy only.",
   "DESIGN.md §3 C06"),
 "C07": ("E1", "fault_enumeration",
   "runtime monitoring: enumerated fault catalogue injected into a live agent while 8 lanes of healthy probes run; process-liveness, crash-marker and probe-correctness monitors + race detector",
   "Faults at every injection point (pending list, fetch, backend connect/headers/body, upload, shim endpoints; 37 kinds) are injected one after another into two agent configurations while healthy token requests run continuously; any probe that fails before/during/after a fault, any crash marker or exit of the agent, and a missing/non-502 answer for an unreachable backend are violations.",
   "A fault may fail its own request in any way. Probe bound 20 s. force-http2 configuration not covered.",
   "DESIGN.md §3 C07"),
 "C08": ("E2+E1", "exploration",
   "runtime monitoring: reference-model monitor over direct calls (integer specification of the delay range) + load-safe inequalities over fake-proxy arrival timestamps of the agent binary",
   "ExponentialBackoffDuration(n) is sampled for n in 0..70, around 2^31/2^32/2^63, 2^64-1 and random 64-bit values against an independent integer specification; the agent binary is run against a fake proxy failing list calls by script and only inequalities that load cannot falsify decide (gap >= 0.9*base; reset shown by a short gap after 11 failures + 1 success, reported only if the long gap repeats 3 times).",
   "Upper bounds on observed gaps never decide (load-dependent); jitter distribution is only range-checked.",
   "DESIGN.md §3 C08"),
 "C09": ("E1", "exploration",
   "runtime monitoring: boundary observer of the header lines the backend / websocket handshake actually received vs the identity asserted by the fake proxy",
   "Agent configurations over {forward-user-id, strip-credentials, shim, sessions}; clients plant forged identity fields and Authorization fields in all case variants; the raw backend records plain requests and websocket handshakes; with forwarding on the value list of X-Inverting-Proxy-User-ID must be exactly [asserted identity], with stripping on no field named Authorization may arrive.",
   "Nothing asserted when the respective option is off.",
   "DESIGN.md §3 C09"),
 "C14": ("E2+E1", "exploration",
   "runtime monitoring: differential monitor (same scripted handler served directly and through banner.Proxy; ShimBody applied to scripted readers) with an independent classification oracle, plus an end-to-end sample through the agent binary",
   "Enumerated product of request/response dimensions with random fill; non-HTML / non-200 / non-GET / attachment responses must be byte-identical to the direct run, frame pages must embed the requested URL and carry the cache / frame headers, shim output must be prefix+one block+suffix with prefix ending at the first <head>.",
   "Inputs whose classification the statement leaves open get only the disjunction 'identical or well-formed frame'.",
   "DESIGN.md §3 C14"),
 "C20": ("E1", "exploration",
   "runtime monitoring: ordering oracles on one monotonic clock over health-reply / proxy-request / process-exit events of the real agent binary; shutdown phases held (not timed) by the harness",
   "Health histories F^k P, P(F^(t-1)P)^m F^t for t in 1..3 and two failure kinds; shutdown scenarios signal x grace period x phase of the in-flight request x backend finishing inside/outside the period. Judged: no proxy request before the first passing reply was sent, no exit with fewer than t trailing failures, exit within 10 s of the t-th, in-flight request answered in full when the backend finishes inside the period, no list call after the announced shutdown once the held one returned, exit not before the period ended.",
   "Progress bound T=10 s; phases before the request reached the backend are outside the statement.",
   "DESIGN.md §3 C20"),
}

PENDING = {}

def main():
    props = [json.loads(l) for l in open("/verif/properties.jsonl")]
    checks = []
    na = []
    for p in props:
        pid = p["id"]
        if pid in CHECKS:
            eng, level, tech, text, note, ref = CHECKS[pid]
            checks.append({
                "property_id": pid,
                "quick_cmd": f"./check {pid} quick",
                "thorough_cmd": f"./check {pid} thorough",
                "evidence_file": f"/verif/evidence/{pid}.json",
                "replay_cmd_template": f"./check {pid} --replay {{path}}",
                "engine": eng,
                "level_claimed": {"category": level, "text": text, "design_ref": ref},
                "level_note": note,
                "technique": tech,
            })
        else:
            na.append({"property_id": pid, "reason": PENDING.get(pid, "check not built yet in this round; runtime monitoring is applicable (see DESIGN.md §3) - listed here only until the check is registered")})
    m = {
        "version": 1,
        "setup_cmd": "./setup.sh",
        "hooks": {
            "guard": "verif",
            "enable": "go build -race -tags verif (done by ./check for every binary and worker it builds from /repo's working tree)",
            "baseline_off_cmd": "cd /repo && GOFLAGS=-mod=mod GOPROXY=off GOSUMDB=off GOTOOLCHAIN=local go test -json -vet=off -count=1 -timeout 25m ./...",
            "source_commits": repo_commits("verif:"),
            "add_only": True,
        },
        "engines": [
            {"name": "E1", "path": "/verif/harness/internal/props", "serves_properties": ["C01","C02","C03","C04","C05","C07","C08","C09","C15","C16","C20"], "kind_free_text": "black-box topology: race-built real binaries as child processes, harness plays clients/backends/fake proxy over real sockets; offline oracles over recorded boundary events"},
            {"name": "E2", "path": "/verif/harness/cmd/vworker", "serves_properties": ["C06","C08","C10","C11","C12","C13","C14","C15","C16"], "kind_free_text": "in-process worker linking /repo packages with -race -tags verif, one child process per batch, hooks for forced interleavings"},
            {"name": "E3", "path": "/verif/harness/appoverlay", "serves_properties": ["C17","C18","C19"], "kind_free_text": "go test -c -overlay of /repo/app driving the production appengine handler against a fake App Engine API (datastore, memcache, user)"},
        ],
        "checks": checks,
        "notes": "Technique family: runtime monitoring and sanitizers only. Known findings and repaired defects: /verif/known_findings.json. Seeded breaking changes used to validate the monitors: /verif/seeded/.",
        "not_applicable": na,
    }
    json.dump(m, open("/verif/MANIFEST.json", "w"), indent=1)
    print("checks:", len(checks), "not_applicable:", len(na))

main()
