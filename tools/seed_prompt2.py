#!/usr/bin/env python3
"""Round-2 prompt: like seed_prompt.py, plus the summaries of changes already produced (to be avoided)."""
import json, sys, glob, subprocess
pid = sys.argv[1]
rnd = sys.argv[2] if len(sys.argv) > 2 else "r2"
base = subprocess.run(["python3", "/verif/tools/seed_prompt.py", pid], capture_output=True, text=True).stdout
base = base.replace(f"/tmp/seed-{pid}", f"/tmp/seed{rnd}-{pid}").replace(f"/tmp/seedout/{pid}", f"/tmp/seedout/{pid}{rnd}")
taken = []
for f in sorted(glob.glob(f"/tmp/seedout/{pid}*/[0-9]/meta.json")):
    try:
        taken.append("- " + json.load(open(f)).get("summary", "").strip())
    except Exception:
        pass
extra = "\n\nOther engineers have ALREADY produced the following property-breaking changes; yours must be substantively different from each of them (different code site AND different mechanism / triggering condition):\n" + "\n".join(taken) + "\n\nPrefer breaks that hide in a different part of the property's statement than the ones above (re-read every clause of the statement and the quantifier), in a different file of the anchors if possible, or that need a rarer trigger (a specific fault position, a three-step history, a boundary value, a particular configuration flag combination).\n"
i = base.index("For each change N in")
print(base[:i] + extra.lstrip("\n") + "\n" + base[i:])
